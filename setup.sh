#!/bin/bash
# Build the overlay venv (/verif/.venv on top of /venv) with z3-solver and cvc5 from the offline wheelhouse.
set -e
cd "$(dirname "$0")"
V=.venv
if [ ! -x $V/bin/python ] || ! $V/bin/python -c "import z3, numpy, scipy" 2>/dev/null; then
  rm -rf $V
  /venv/bin/python -m venv $V
  SP=$($V/bin/python -c "import site; print(site.getsitepackages()[0])")
  echo "import site; site.addsitedir('/venv/lib/python3.12/site-packages')" > $SP/_verif_overlay.pth
  PIP_NO_INDEX=1 $V/bin/pip install -q --no-index --find-links /opt/veriftools/wheels z3-solver cvc5 jsonschema >/dev/null
fi
$V/bin/python -c "import z3, cvc5, numpy, scipy; print('setup ok: z3', z3.get_version_string(), 'numpy', numpy.__version__)"
# translator validation (DESIGN 2.8): repo test inputs through the float code and through the symbolic layer on constants
$V/bin/python -W ignore -m symx.selftest | tail -1 || echo "WARNING: selftest reported mismatches (see python -m symx.selftest)"
