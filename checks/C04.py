"""C04 - frequency-shift covariance and conjugate symmetry of two-sided spectra."""
import numpy as np

from symx.run import Case
from symx.number import SymBool, Sym, ctx
from .common import sp, conj, abs2
from . import zoo

ID = "C04"
EXPLANATION = ("Each estimator class is executed on symbolic complex data x and, in the same symbolic run, on the related data "
               "x[t]*exp(2 pi i m t/NFFT) (exact algebraic twiddles), conj(x), conj(x[::-1]) and on real samples declared complex. "
               "z3 decides bin by bin: circular rotation by exactly m bins, mirroring k <-> -k, one-sided = 2 x first half of the "
               "two-sided estimate, and invariance under conjugated time reversal.")
BOUNDS = {
    "quick": "N=3 (4 for MUSIC-free covariance family), order 1, NFFT=4 (all shifts m=1..3) and NFFT=3 for the Fourier estimators; "
             "classes: Periodogram, pcorrelogram, pburg, pyule, pcovar, pmodcovar, pminvar, MultiTapering (+pma, parma for the real/one-sided clause)",
    "thorough": "adds NFFT in {5, 6, 8} for the Fourier classes, NFFT=5 (mirror only) and order 2 at NFFT=4 for the parametric ones; one-sided NFFT 6; reversal NFFT 5",
}
ASSUMPTIONS = ["floats modelled as exact reals", "fft = DFT definition, exact twiddles", "lstsq exact", "multitaper tapers supplied as constants "
               "(first symmetric, second antisymmetric)"]
OUTSIDE = ["MUSIC / EV for the shift and mirror clauses: their singular vectors come from an SVD that the model leaves arbitrary, "
           "and the output reordering of eigen() is a known finding of C02/C17", "parma / pma on complex data (expression swell)",
           "orders and NFFT above the bounds"]
BUDGET = {"quick": 900, "thorough": 3400}

SHIFT_CLASSES = ['Periodogram', 'pcorrelogram', 'pburg', 'pyule', 'pcovar', 'pmodcovar', 'pminvar', 'MultiTapering']
ONESIDED_CLASSES = ['pburg', 'pyule', 'pcovar', 'pmodcovar', 'pminvar', 'MultiTapering', 'pma', 'parma']
REVERSAL_CLASSES = ['Periodogram', 'pcorrelogram', 'pyule', 'pburg', 'pmodcovar', 'MultiTapering', 'pminvar']


def modulate(h, x, m, n):
    """x[t] * exp(+2 pi i m t / n)"""
    if h.is_sym():
        from symx import stubs
        from symx.array import SymArray
        tw = stubs.twiddles(n)
        return SymArray.make([x[t] * tw(m * t).conjugate() for t in range(len(x))], cplx=True)
    return np.array([x[t] * np.exp(2j * np.pi * m * t / n) for t in range(len(x))])


def mk(h, name, x, n, order=1):
    kw = {}
    if name == 'pcorrelogram':
        kw['lag'] = 1
    return zoo.make(name, x, n=n, fs=1.0, scale=False, order=order, **kw)


def case_shift(h, name, n, m, order):
    N = zoo.DEFAULT_N[name] + (order - 1)
    x = h.vec('x', N, True)
    if h.is_sym():
        ctx().twiddle_base = n
    xm = modulate(h, x, m, n)
    try:
        a = zoo.psd_of(mk(h, name, x, n, order))
        b = zoo.psd_of(mk(h, name, xm, n, order))
    except zoo.Degenerate:
        return
    if len(a) != n or len(b) != n:
        h.fail("len", "%d %d" % (len(a), len(b)))
        return
    for k in range(n):
        h.claim_eq("bin%d = bin%d of the unshifted estimate" % (k, (k - m) % n), b[k], a[(k - m) % n])


def case_mirror(h, name, n, order):
    N = zoo.DEFAULT_N[name] + (order - 1)
    x = h.vec('x', N, True)
    xc = x.conj() if hasattr(x, 'conj') else np.conj(x)
    try:
        a = zoo.psd_of(mk(h, name, x, n, order))
        b = zoo.psd_of(mk(h, name, xc, n, order))
    except zoo.Degenerate:
        return
    if len(a) != n or len(b) != n:
        h.fail("len", "%d %d" % (len(a), len(b)))
        return
    for k in range(n):
        h.claim_eq("conj: bin%d = bin%d" % (k, (-k) % n), b[k], a[(-k) % n])


def case_onesided(h, name, n, order):
    N = zoo.DEFAULT_N[name] + (order - 1)
    x = zoo.data(h, name, False, N)
    xc = x.astype(complex)
    try:
        one = zoo.psd_of(mk(h, name, x, n, order))
        two = zoo.psd_of(mk(h, name, xc, n, order))
    except zoo.Degenerate:
        return
    L = zoo.expected_len(n, False)
    if len(one) != L or len(two) != n:
        h.fail("len", "onesided %d (expected %d) twosided %d (expected %d)" % (len(one), L, len(two), n))
        return
    for k in range(L):
        h.claim_eq("onesided[%d] = 2*twosided[%d]" % (k, k), one[k], 2 * two[k])
    for k in range(1, n):
        h.claim_eq("twosided symmetric: bin%d = bin%d" % (k, n - k), two[k], two[n - k])


def case_reversal(h, name, n, order, cplx):
    N = zoo.DEFAULT_N[name] + (order - 1)
    x = h.vec('x', N, cplx)
    if h.is_sym():
        from symx.array import SymArray
        xr = SymArray.make([conj(x[N - 1 - t]) for t in range(N)], cplx=cplx)
    else:
        xr = np.conj(x[::-1])
    try:
        a = zoo.psd_of(mk(h, name, x, n, order))
        b = zoo.psd_of(mk(h, name, xr, n, order))
    except zoo.Degenerate:
        return
    if len(a) != len(b):
        h.fail("len", "%d %d" % (len(a), len(b)))
        return
    for k in range(len(a)):
        h.claim_eq("reversal: bin%d" % k, b[k], a[k])


def cases(tier, seed):
    q = tier == 'quick'
    out = []
    T = dict(timeout=120 if q else 300, max_paths=16, feas_timeout=3, wall=500 if q else 900)
    for name in SHIFT_CLASSES:
        fourier = zoo.KIND[name] == 'fourier'
        ns = ((3, 4) if fourier else (4,)) if q else ((3, 4, 5, 6, 8) if fourier else (4, 5))
        for n in ns:
            if name == 'pcorrelogram' and n < 3:
                continue
            if name == 'pminvar' and n < 4:
                continue
            for order in ((1,) if (q or fourier or name == 'pminvar' or n > 4) else (1, 2)):
                for m in (range(1, n) if (q and n <= 4) or not q else (1, n - 1)):
                    if not fourier and n == 5:
                        continue        # shift of a parametric estimate on the generic 5-point grid: no verdict within 300 s per query
                    out.append(Case("shift:%s:NFFT=%d:m=%d:order=%d" % (name, n, m, order), case_shift,
                                    dict(name=name, n=n, m=m, order=order), **T))
                out.append(Case("mirror:%s:NFFT=%d:order=%d" % (name, n, order), case_mirror, dict(name=name, n=n, order=order), **T))
    for name in ONESIDED_CLASSES:
        for n in ((4, 5) if q else (4, 5, 6)):
            for order in ((1,) if (q or name in ('pma', 'parma', 'pminvar', 'MultiTapering')) else (1, 2)):
                out.append(Case("onesided=2*half:%s:NFFT=%d:order=%d" % (name, n, order), case_onesided,
                                dict(name=name, n=n, order=order), **T))
    for name in REVERSAL_CLASSES:
        for cplx in (True, False):
            for n in ((4,) if q else (4, 5)):
                if name == 'pcorrelogram' and not cplx and n % 2:
                    continue
                out.append(Case("reversal:%s:%s:NFFT=%d" % (name, 'cx' if cplx else 're', n), case_reversal,
                                dict(name=name, n=n, order=1, cplx=cplx), **T))
    return out
