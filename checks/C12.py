"""C12 - Yule-Walker models are stable and match the data autocorrelation."""
import numpy as np

from symx.run import Case
from symx.number import SymBool
from .common import sp, conj, abs2, corr_def, stepup

ID = "C12"
EXPLANATION = ("aryule (real CORRELATION + real LEVINSON), the least-squares fit on the 'autocorrelation' data matrix "
               "and lpc are executed on symbolic data. z3 decides the lag-matching identities sum_j a_j r[i-j] = P delta_i "
               "against the biased autocorrelation written in the harness, positivity of the noise variance and "
               "|k_i| < 1 for EVERY non-zero data vector (non-linear real arithmetic, CAD), absence of roots outside "
               "the unit circle, and equality of the coefficients obtained by the three routes.")
BOUNDS = {
    "quick": "identities: N<=4, p<=3 real; N<=3, p<=2 complex. positivity/|k|<1 for all x != 0: (N,p) in {(2,1),(3,1),(3,2)} real, (2,1) complex. "
             "root query p<=2 (N=3). lstsq route N<=4,p<=2. lpc m in {2,3} (FFT length 4, 8), p<=2",
    "thorough": "identities: N<=5, p<=3 real, N<=4, p<=2 complex; positivity adds (4,1) real (larger positivity cases do not decide within 900 s and are not claimed); lpc m<=4",
}
ASSUMPTIONS = ["floats modelled as exact reals", "data not identically zero (for the inequality clauses)",
               "lstsq = exact normal equations, full column rank assumed", "fft/ifft = DFT definition (lpc)"]
OUTSIDE = ["N > 5, p > 3 (property text goes to N=200, p=30)", "positivity beyond the listed (N,p): CAD does not terminate within budget; "
           "supported (not decided) by C09 Gram identity + C10 Levinson-on-PD results",
           "'trends / integer-valued data' have no special status in exact arithmetic", "ma(): see C15"]
BUDGET = {"quick": 900, "thorough": 3400}


def biased_r(x, k):
    return corr_def(x, x, k) / len(x)


def case_lag_matching(h, N, p, cplx):
    S = sp()
    x = h.vec('x', N, cplx)
    A, P, k = S.aryule(x, p)
    if len(A) != p or len(k) != p:
        h.fail("len", "len(A)=%d len(k)=%d" % (len(A), len(k)))
        return
    r = [biased_r(x, i) for i in range(p + 1)]

    def rr(i):
        return r[i] if i >= 0 else conj(r[-i])
    a = [1] + [A[i] for i in range(p)]
    for i in range(p + 1):
        acc = 0
        for j in range(p + 1):
            acc = acc + a[j] * rr(i - j)
        h.claim_eq("lag%d" % i, acc, P if i == 0 else 0)
    su = stepup([k[i] for i in range(p)])
    for i in range(p):
        h.claim_eq("a=stepup(k)[%d]" % i, A[i], su[i])
    prod = r[0]
    for i in range(p):
        prod = prod * (1 - abs2(k[i]))
    h.claim_eq("P=r0*prod(1-|k|^2)", P, prod)


def case_positive(h, N, p, cplx):
    S = sp()
    x = h.vec('x', N, cplx)
    h.assume_nonzero_vec(x)
    A, P, k = S.aryule(x, p)
    h.claim_real("P real", P)
    h.claim_lt("P>0", 0, P.real)
    for i in range(p):
        h.claim_lt("|k%d|<1" % (i + 1), abs2(k[i]), 1)


def case_roots(h, N, p, cplx):
    S = sp()
    x = h.vec('x', N, cplx)
    h.assume_nonzero_vec(x)
    A, P, k = S.aryule(x, p)
    if h.is_sym():
        z = h.cplx('z')
        acc = 1
        for i in range(p):
            acc = acc * z + A[i]
        h.claim_true("no-root-with-|z|>=1", ~((acc == 0) & (abs2(z) >= 1)))
    else:
        roots = np.roots([1] + [complex(A[i]) for i in range(p)])
        h.claim_true("no-root-with-|z|>=1", bool(np.all(np.abs(roots) < 1)))


def case_lstsq_route(h, N, p, cplx):
    S = sp()
    x = h.vec('x', N, cplx)
    A, P, k = S.aryule(x, p)
    X = S.corrmtx(x, p, 'autocorrelation')
    if h.is_sym():
        from symx import stubs
        a_ls = stubs.lstsq(-X[:, 1:], X[:, 0])[0]
    else:
        import scipy.linalg
        a_ls = scipy.linalg.lstsq(-X[:, 1:], X[:, 0])[0]
    for i in range(p):
        h.claim_eq("a_lstsq[%d]=a_yule[%d]" % (i, i), a_ls[i], A[i])


def case_lpc(h, m, p):
    S = sp()
    x = h.real_vec('x', m)
    h.assume_nonzero_vec(x)
    try:
        a_lpc, e = S.lpc(x.copy(), p)
    except ValueError:
        return          # LEVINSON's own rejection of a singular autocorrelation
    A, P, k = S.aryule(x, p)
    if len(a_lpc) != p:
        h.fail("len", "len %d" % len(a_lpc))
        return
    for i in range(p):
        h.claim_eq("a_lpc[%d]=a_yule[%d]" % (i, i), a_lpc[i], A[i])
    # lpc normalises the autocorrelation by m-1: its error is the Yule-Walker variance times m/(m-1)
    h.claim_eq("e_lpc*(m-1)=P_yule*m", e * (m - 1), P * m)


def cases(tier, seed):
    q = tier == 'quick'
    out = []
    for cplx, maxN, maxp in ((False, 4 if q else 5, 3), (True, 3 if q else 4, 2)):
        tag = 'cx' if cplx else 're'
        for N in range(2, maxN + 1):
            for p in range(1, min(maxp, N - 1) + 1):
                out.append(Case("lag-matching:%s:N=%d:p=%d" % (tag, N, p), case_lag_matching, dict(N=N, p=p, cplx=cplx),
                                timeout=60 if q else 300, max_paths=16, feas_timeout=3))
    pos = [(2, 1, False), (3, 1, False), (3, 2, False), (2, 1, True)]
    if not q:
        pos += [(4, 1, False)]       # (4,2), (4,3) real and (3,1) complex: solver unknown after 900 s - not claimed
    for N, p, cplx in pos:
        out.append(Case("positive:%s:N=%d:p=%d" % ('cx' if cplx else 're', N, p), case_positive, dict(N=N, p=p, cplx=cplx),
                        timeout=120 if q else 900, max_paths=16, feas_timeout=5))
    for N, p, cplx in [(3, 1, False), (2, 1, True)]:
        out.append(Case("roots:%s:N=%d:p=%d" % ('cx' if cplx else 're', N, p), case_roots, dict(N=N, p=p, cplx=cplx),
                        timeout=120 if q else 900, max_paths=16, feas_timeout=5))
    from .common import case_schur_cohn_lemma
    for p, cplx in [(1, False), (2, False), (1, True)]:
        out.append(Case("schur-cohn-lemma:%s:p=%d" % ('cx' if cplx else 're', p), case_schur_cohn_lemma,
                        dict(p=p, cplx=cplx), lemma=True, timeout=120 if q else 900))
    for cplx in (False, True):
        for N in ((3, 4) if q else (3, 4, 5)):
            for p in (1, 2):
                if p < N and not (cplx and N > 3 and q):
                    out.append(Case("lstsq-route:%s:N=%d:p=%d" % ('cx' if cplx else 're', N, p), case_lstsq_route,
                                    dict(N=N, p=p, cplx=cplx), timeout=120 if q else 600, max_paths=16, feas_timeout=3))
    for m in ((2, 3) if q else (2, 3, 4)):
        for p in range(1, min(m - 1, 2) + 1):
            out.append(Case("lpc:m=%d:p=%d" % (m, p), case_lpc, dict(m=m, p=p), timeout=120 if q else 600,
                            max_paths=16, feas_timeout=3))
    from .common import case_buffer_reuse, Call as _Call
    for N, p, cplx in ([(3, 1, False), (3, 2, False), (2, 1, True)] if q else [(3, 1, False), (3, 2, False), (4, 2, False), (2, 1, True), (3, 1, True)]):
        out.append(Case("buffer-reuse:aryule:%s:N=%d:p=%d" % ('cx' if cplx else 're', N, p), case_buffer_reuse,
                        dict(call=_Call('aryule', p), N=N, cplx=cplx, tag="aryule"), timeout=120 if q else 600, max_paths=16,
                        feas_timeout=3, wall=500 if q else 2400))
    out.append(Case("buffer-reuse:lpc:re:N=3:p=1", case_buffer_reuse, dict(call=_Call('lpc', 1), N=3, cplx=False, tag="lpc"),
                    timeout=120 if q else 600, max_paths=16, feas_timeout=3, wall=500 if q else 2400))
    return out
