"""helpers shared by the check modules (usable in symbolic and replay mode)"""
import numpy as np

from symx import loader
from symx.number import Sym, SymBool, as_sym, active
from symx.array import SymArray


def sp():
    return loader.import_spectrum()


def conj(z):
    return z.conjugate()


def abs2(z):
    if isinstance(z, Sym):
        return z.abs2()
    z = complex(z)
    return z.real * z.real + z.imag * z.imag


def padded(x, n):
    out = [x[i] for i in range(len(x))]
    out += [0.0] * (n - len(out))
    return out


def corr_def(x, y, k):
    """sum_n x[n+k] conj(y[n]) over the zero padded common length"""
    N = max(len(x), len(y))
    xs, ys = padded(x, N), padded(y, N)
    acc = 0
    for n in range(N - k):
        acc = acc + xs[n + k] * conj(ys[n])
    return acc


def msq(x):
    """mean |x|^2"""
    acc = 0
    for e in x:
        acc = acc + abs2(e)
    return acc / len(x)


def expect_raises(fn, excs):
    """returns (raised: bool, value or exception)"""
    try:
        return False, fn()
    except excs as e:
        return True, e


def stepup(ks):
    """reflection coefficients -> prediction polynomial a[1..p] (Levinson step-up)"""
    a = []
    for k in ks:
        new = [a[j] + k * conj(a[len(a) - 1 - j]) for j in range(len(a))]
        new.append(k)
        a = new
    return a


def case_schur_cohn_lemma(h, p, cplx):
    """lemma over fresh symbols: reflection coefficients of modulus < 1 => step-up polynomial has no root with |z| >= 1"""
    ks = [(h.cplx("k%d" % i) if cplx else h.real("k%d" % i)) for i in range(p)]
    for k in ks:
        h.assume(abs2(k) < 1, "|k|<1")
    a = stepup(ks)
    if h.is_sym():
        z = h.cplx('z')
        acc = 1
        for i in range(p):
            acc = acc * z + a[i]
        h.claim_true("no-root-with-|z|>=1", ~((acc == 0) & (abs2(z) >= 1)))
    else:
        roots = np.roots([1] + [complex(v) for v in a])
        h.claim_true("no-root-with-|z|>=1", bool(np.all(np.abs(roots) < 1)))


def _flat(r):
    """flatten nested results (tuples / arrays / scalars) into a list of scalars; None entries skipped"""
    out = []
    if r is None:
        return out
    if isinstance(r, (tuple, list)):
        for e in r:
            out.extend(_flat(e))
        return out
    if isinstance(r, np.ndarray):
        for e in np.asarray(r, dtype=object).ravel() if r.dtype == object else r.ravel():
            out.append(e)
        return out
    out.append(r)
    return out


def case_buffer_reuse(h, call, N, cplx, tag="f"):
    """the result of a functional estimator depends only on the VALUES passed: (1) the caller's array is not modified,
    (2) refilling the same buffer in place and calling again gives what a fresh array with those values gives"""
    x = h.vec('x', N, cplx)
    y = h.vec('y', N, cplx)
    orig = [x[i] for i in range(N)]
    try:
        call(x)
    except ValueError:
        return
    for i in range(N):
        h.claim_eq("%s: input sample %d not modified by the call" % (tag, i), x[i], orig[i])
    for i in range(N):
        x[i] = y[i]
    try:
        r2 = call(x)
        if h.is_sym():
            from symx.array import SymArray
            z = SymArray.make([y[i] for i in range(N)], cplx=cplx)
        else:
            z = np.array([y[i] for i in range(N)], dtype=complex if cplx else float)
        r3 = call(z)
    except ValueError:
        return
    a, b = _flat(r2), _flat(r3)
    if len(a) != len(b):
        h.fail("%s: refilled buffer vs fresh array: result sizes differ" % tag)
        return
    for i in range(len(a)):
        h.claim_eq("%s: refilled buffer = fresh array [%d]" % (tag, i), a[i], b[i])


class Call(object):
    """callable by name: spectrum.<fn>(x, *args, **kw) (optionally a dotted path below the package)"""

    def __init__(self, fn, *args, **kw):
        self.fn, self.args, self.kw = fn, args, kw

    def __call__(self, x):
        obj = sp()
        for part in self.fn.split('.'):
            obj = getattr(obj, part)
        return obj(x, *self.args, **self.kw)

    def __repr__(self):
        return "%s%r%r" % (self.fn, self.args, self.kw)


def reuse_cases(specs, q):
    """specs: (label, Call, N, cplx)"""
    from symx.run import Case
    out = []
    for label, call, N, cplx in specs:
        out.append(Case("buffer-reuse:%s:%s:N=%d" % (label, 'cx' if cplx else 're', N), case_buffer_reuse,
                        dict(call=call, N=N, cplx=cplx, tag=label), timeout=120 if q else 600, max_paths=16, feas_timeout=3,
                        wall=500 if q else 2400))
    return out
