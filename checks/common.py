"""helpers shared by the check modules (usable in symbolic and replay mode)"""
import numpy as np

from symx import loader
from symx.number import Sym, SymBool, as_sym, active
from symx.array import SymArray


def sp():
    return loader.import_spectrum()


def conj(z):
    return z.conjugate()


def abs2(z):
    if isinstance(z, Sym):
        return z.abs2()
    z = complex(z)
    return z.real * z.real + z.imag * z.imag


def padded(x, n):
    out = [x[i] for i in range(len(x))]
    out += [0.0] * (n - len(out))
    return out


def corr_def(x, y, k):
    """sum_n x[n+k] conj(y[n]) over the zero padded common length"""
    N = max(len(x), len(y))
    xs, ys = padded(x, N), padded(y, N)
    acc = 0
    for n in range(N - k):
        acc = acc + xs[n + k] * conj(ys[n])
    return acc


def msq(x):
    """mean |x|^2"""
    acc = 0
    for e in x:
        acc = acc + abs2(e)
    return acc / len(x)


def expect_raises(fn, excs):
    """returns (raised: bool, value or exception)"""
    try:
        return False, fn()
    except excs as e:
        return True, e


def stepup(ks):
    """reflection coefficients -> prediction polynomial a[1..p] (Levinson step-up)"""
    a = []
    for k in ks:
        new = [a[j] + k * conj(a[len(a) - 1 - j]) for j in range(len(a))]
        new.append(k)
        a = new
    return a


def case_schur_cohn_lemma(h, p, cplx):
    """lemma over fresh symbols: reflection coefficients of modulus < 1 => step-up polynomial has no root with |z| >= 1"""
    ks = [(h.cplx("k%d" % i) if cplx else h.real("k%d" % i)) for i in range(p)]
    for k in ks:
        h.assume(abs2(k) < 1, "|k|<1")
    a = stepup(ks)
    if h.is_sym():
        z = h.cplx('z')
        acc = 1
        for i in range(p):
            acc = acc * z + a[i]
        h.claim_true("no-root-with-|z|>=1", ~((acc == 0) & (abs2(z) >= 1)))
    else:
        roots = np.roots([1] + [complex(v) for v in a])
        h.claim_true("no-root-with-|z|>=1", bool(np.all(np.abs(roots) < 1)))
