"""helpers shared by the check modules (usable in symbolic and replay mode)"""
import numpy as np

from symx import loader
from symx.number import Sym, SymBool, as_sym, active
from symx.array import SymArray


def sp():
    return loader.import_spectrum()


def conj(z):
    return z.conjugate()


def abs2(z):
    if isinstance(z, Sym):
        return z.abs2()
    z = complex(z)
    return z.real * z.real + z.imag * z.imag


def padded(x, n):
    out = [x[i] for i in range(len(x))]
    out += [0.0] * (n - len(out))
    return out


def corr_def(x, y, k):
    """sum_n x[n+k] conj(y[n]) over the zero padded common length"""
    N = max(len(x), len(y))
    xs, ys = padded(x, N), padded(y, N)
    acc = 0
    for n in range(N - k):
        acc = acc + xs[n + k] * conj(ys[n])
    return acc


def msq(x):
    """mean |x|^2"""
    acc = 0
    for e in x:
        acc = acc + abs2(e)
    return acc / len(x)


def expect_raises(fn, excs):
    """returns (raised: bool, value or exception)"""
    try:
        return False, fn()
    except excs as e:
        return True, e


def stepup(ks):
    """reflection coefficients -> prediction polynomial a[1..p] (Levinson step-up)"""
    a = []
    for k in ks:
        new = [a[j] + k * conj(a[len(a) - 1 - j]) for j in range(len(a))]
        new.append(k)
        a = new
    return a
