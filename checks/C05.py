"""C05 - NFFT only chooses the sampling grid of one underlying spectrum."""
import numpy as np

from symx.run import Case
from symx.number import SymBool, Sym, ctx
from .common import sp, conj, abs2
from . import zoo

ID = "C05"
EXPLANATION = ("Each estimator class is constructed twice on the same symbolic data, with NFFT = n and NFFT = c*n (scaling off); "
               "the twiddle factors of the coarse grid are powers of the fine grid's generator. z3 decides psd_n[j] = psd_cn[c*j] at every "
               "common frequency and that the exposed model parameters (AR, MA, rho, reflection coefficients, singular values, multitaper "
               "eigenvalues/weights) are identical. For an inadmissible NFFT (correlogram NFFT < 2*lag+1) the identity must come back "
               "violated (witness twin: the harness can see aliasing).")
BOUNDS = {
    "quick": "(n, c*n) in {(3,6), (4,8)} (+(2,6),(2,4) where admissible), N=3 (class minimal sizes), order 1, real and complex for the cheap classes",
    "thorough": "adds (3,9), (5,10), (2,8), order 2, complex for all classes that admit it",
}
ASSUMPTIONS = ["floats modelled as exact reals", "fft = DFT definition; twiddles of n derived from the generator of c*n", "lstsq exact",
               "svd: a function of its input (same matrix, same factors)", "multitaper tapers supplied as constants"]
OUTSIDE = ["NFFT above 10", "orders above 2"]
BUDGET = {"quick": 900, "thorough": 3400}


def admissible(name, n, N, order, cplx):
    if name in ('Periodogram', 'MultiTapering'):
        return n >= N
    if name == 'pcorrelogram':
        return n >= 3
    if name == 'pminvar':
        return n >= 4
    if name in ('pmusic', 'pev'):
        return n > 2
    if name == 'parma':
        return n > 3
    return n > order + 1


def case_grid(h, name, cplx, n, c, order):
    N = zoo.DEFAULT_N[name] + (order - 1)
    x = zoo.data(h, name, cplx, N)
    if h.is_sym():
        ctx().twiddle_base = n * c
    kw = {'lag': 1} if name == 'pcorrelogram' else {}
    p1 = zoo.make(name, x, n=n, fs=1.0, scale=False, order=order, **kw)
    p2 = zoo.make(name, x, n=n * c, fs=1.0, scale=False, order=order, **kw)
    try:
        a = zoo.psd_of(p1)
        b = zoo.psd_of(p2)
    except zoo.Degenerate:
        return
    La, Lb = zoo.expected_len(n, cplx), zoo.expected_len(n * c, cplx)
    if len(a) != La or len(b) != Lb:
        h.fail("len", "len %d (expected %d), %d (expected %d)" % (len(a), La, len(b), Lb))
        return
    for j in range(La):
        if c * j < Lb:
            h.claim_eq("psd_%d[%d] = psd_%d[%d]" % (n, j, n * c, c * j), a[j], b[c * j])
    for attr in ('ar', 'ma', 'reflection', 'eigenvalues'):
        va, vb = getattr(p1, attr, None), getattr(p2, attr, None)
        if va is None and vb is None:
            continue
        if va is None or vb is None or len(va) != len(vb):
            h.fail(attr + ":len", "exposed parameter differs in presence/length")
            continue
        for i in range(len(va)):
            h.claim_eq("%s[%d] independent of NFFT" % (attr, i), va[i], vb[i])
    ra, rb = getattr(p1, 'rho', None), getattr(p2, 'rho', None)
    if ra is not None and rb is not None:
        h.claim_eq("rho independent of NFFT", ra, rb)
    if name == 'MultiTapering':
        w1, w2 = np.asarray(p1.weights, dtype=object).ravel(), np.asarray(p2.weights, dtype=object).ravel()
        if len(w1) == len(w2):
            for i in range(len(w1)):
                h.claim_eq("weights[%d] independent of NFFT" % i, w1[i], w2[i])


def case_witness_alias(h):
    """correlogram with lag 2 needs NFFT >= 5: at NFFT=3 vs 6 the lag window wraps around and the grids disagree"""
    S = sp()
    x = h.vec('x', 3, True)
    if h.is_sym():
        ctx().twiddle_base = 6
    a = S.CORRELOGRAMPSD(x, lag=2, NFFT=3, window='rectangular', norm='biased')
    b = S.CORRELOGRAMPSD(x, lag=2, NFFT=6, window='rectangular', norm='biased')
    for j in range(3):
        h.claim_eq("psd_3[%d] = psd_6[%d]" % (j, 2 * j), a[j], b[2 * j])


def cases(tier, seed):
    q = tier == 'quick'
    out = []
    pairs = [(3, 2), (4, 2), (2, 3), (2, 2)] if q else [(3, 2), (4, 2), (2, 3), (2, 2), (3, 3), (5, 2), (2, 4)]
    cheap = ('Periodogram', 'pcorrelogram', 'MultiTapering', 'pcovar', 'pmodcovar', 'pmusic', 'pev')
    T = dict(timeout=120 if q else 600, max_paths=16, feas_timeout=3, wall=500 if q else 2400)
    for name in zoo.ALL:
        for cplx in (False, True):
            if cplx and name in ('parma', 'pma'):
                continue
            if cplx and q and name not in cheap:
                continue
            for (n, c) in pairs:
                for order in ((1,) if (q or zoo.KIND[name] != 'ar') else (1, 2)):
                    N = zoo.DEFAULT_N[name] + (order - 1)
                    if not admissible(name, n, N, order, cplx) or not admissible(name, n * c, N, order, cplx):
                        continue
                    if cplx and order == 2 and n * c >= 10:
                        continue        # generic degree-10 twiddles x second lattice stage: does not finish within the budget
                    out.append(Case("grid:%s:%s:NFFT=%d,%d:order=%d" % (name, 'cx' if cplx else 're', n, n * c, order),
                                    case_grid, dict(name=name, cplx=cplx, n=n, c=c, order=order), **T))
    out.append(Case("witness:correlogram:lag=2:NFFT=3,6 (inadmissible)", case_witness_alias, {}, timeout=60, expect_sat=True))
    return out
