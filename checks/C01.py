"""C01 - periodogram equals the windowed-DFT definition and conserves power."""
import math

import numpy as np

from symx.run import Case
from .common import sp, conj, abs2

ID = "C01"
EXPLANATION = ("speriodogram, Periodogram and CORRELOGRAMPSD (through the real Window, CORRELATION and xcorr code) are "
               "executed on symbolic data vectors; numpy's (r)fft is replaced by the DFT definition with exact algebraic "
               "twiddle factors. z3 decides, for every returned bin, equality with |sum_m x[m] w[m] e^{-2 pi i k m/NFFT}|^2/N "
               "written independently in the harness, Parseval for complex data and Wiener-Khinchin for the correlogram.")
BOUNDS = {
    "quick": "N in 1..4, NFFT in {N..8} (subset incl. odd/prime 5,7 and powers of two), real and complex, 1-D; 2-D (N x 2) for N=2,3; "
             "windows: rectangular, hann + 4 chosen by VERIF_SEED; function and class form; Wiener-Khinchin N in 2..3, NFFT in {2N-1, 8}; "
             "integer-dtype data (int64 array / list of ints, Int-sorted symbols) at (N,NFFT,window) in {(3,4,hamming),(4,4,hann),(4,5,hamming)}",
    "thorough": "N in 1..4, every NFFT in N..8, plus (N,NFFT) in {(5,5),(5,6),(5,8),(5,12),(6,6),(6,8),(6,12),(4,9),(4,10),(4,12)}, all 29 window names, 1-D and 2-D; Wiener-Khinchin N in 2..4, NFFT in 2N-1..8; integer-dtype data on 6 more (N,NFFT) pairs x 6 windows",
}
ASSUMPTIONS = ["floats modelled as exact reals", "numpy.fft.(r)fft = DFT definition (stub with exact twiddles)",
               "window samples enter as the exact rational value of the floats the real window code returns",
               "sizes concrete and bounded"]
OUTSIDE = ["N > 4, NFFT > 8", "rounding / dynamic range", "riemann window at odd N (its centre sample is NaN, reported by C20)"]
BUDGET = {"quick": 900, "thorough": 3400}

ALL_WINDOWS = ["bartlett_hann", "blackman_harris", "blackman_nuttall", "bohman", "blackman", "chebwin", "gaussian",
               "hamming", "kaiser", "lanczos", "sinc", "poisson", "tukey", "nuttall", "parzen", "flattop", "riesz",
               "riemann", "hann", "hanning", "poisson_hanning", "rectangular", "rectangle", "bartlett", "triangular",
               "cosine", "sine", "cauchy", "taylor"]


def window_values(N, name):
    S = sp()
    w = np.asarray(S.Window(N, name).data, dtype=float)
    if not np.all(np.isfinite(w)) or len(w) != N:
        return None
    return w


def dft_bin(h, x, w, n, k):
    """sum_m x[m] w[m] omega_n^(k m) with the same exact twiddles the fft stub uses (or floats in replay)"""
    if h.is_sym():
        from symx import stubs
        tw = stubs.twiddles(n)
        acc = 0
        for m in range(len(x)):
            acc = acc + x[m] * float(w[m]) * tw(k * m)
        return acc
    acc = 0j
    for m in range(len(x)):
        acc += complex(x[m]) * w[m] * np.exp(-2j * np.pi * k * m / n)
    return acc


def nbins(n, cplx):
    return n if cplx else n // 2 + 1


def case_periodogram(h, N, n, cplx, window, form):
    S = sp()
    w = window_values(N, window)
    if w is None:
        h.note("window not finite / wrong length: skipped (C20)")
        return
    x = h.vec('x', N, cplx)
    if form == 'function':
        psd = S.speriodogram(x, NFFT=n, detrend=False, sampling=1., scale_by_freq=False, window=window)
    else:
        p = S.Periodogram(x, sampling=1., window=window, NFFT=n, scale_by_freq=False, detrend=None)
        psd = p.psd
    K = nbins(n, cplx)
    if len(psd) != K:
        h.fail("len", "len(psd)=%d expected %d" % (len(psd), K))
        return
    tot = 0
    for k in range(K):
        X = dft_bin(h, x, w, n, k)
        h.claim_eq("bin%d" % k, psd[k], abs2(X) / N)
        tot = tot + psd[k]
    if cplx:
        e = 0
        for m in range(N):
            e = e + abs2(x[m] * float(w[m]))
        h.claim_eq("parseval", tot / n, e / N)


def case_periodogram_int(h, N, n, window, form, as_list):
    """integer-valued input (numpy int64 array or a list of Python ints): same definition, no truncation anywhere"""
    S = sp()
    w = window_values(N, window)
    if w is None:
        return
    xi = h.int_vec('x', N)
    x = xi
    if as_list and not h.is_sym():
        x = [int(v) for v in xi]
    if form == 'function':
        psd = S.speriodogram(x, NFFT=n, detrend=False, sampling=1., scale_by_freq=False, window=window)
    else:
        psd = S.Periodogram(x, sampling=1., window=window, NFFT=n, scale_by_freq=False, detrend=None).psd
    K = nbins(n, False)
    if len(psd) != K:
        h.fail("len", "len(psd)=%d expected %d" % (len(psd), K))
        return
    for k in range(K):
        X = dft_bin(h, xi, w, n, k)
        h.claim_eq("bin%d" % k, psd[k], abs2(X) / N)


def case_periodogram_2d(h, N, n, cplx, window):
    S = sp()
    w = window_values(N, window)
    if w is None:
        return
    cols = [h.vec('x', N, cplx), h.vec('y', N, cplx)]
    if h.is_sym():
        from symx.array import SymArray
        x2 = SymArray.make([[cols[c][m] for c in range(2)] for m in range(N)], cplx=cplx)
    else:
        x2 = np.array([[cols[c][m] for c in range(2)] for m in range(N)])
    psd = S.speriodogram(x2, NFFT=n, detrend=False, sampling=1., scale_by_freq=False, window=window)
    K = nbins(n, cplx)
    if tuple(psd.shape) != (K, 2):
        h.fail("shape", "shape %r expected %r" % (tuple(psd.shape), (K, 2)))
        return
    for c in range(2):
        for k in range(K):
            X = dft_bin(h, cols[c], w, n, k)
            h.claim_eq("col%d:bin%d" % (c, k), psd[k, c], abs2(X) / N)


def case_wiener_khinchin(h, N, n, cplx, method):
    S = sp()
    x = h.vec('x', N, cplx)
    psd = S.CORRELOGRAMPSD(x, lag=N - 1, window='rectangular', norm='biased', NFFT=n, correlation_method=method)
    if len(psd) != n:
        h.fail("len", "len %d expected %d" % (len(psd), n))
        return
    ones = [1.0] * N
    for k in range(n):
        X = dft_bin(h, x, ones, n, k)
        h.claim_eq("bin%d" % k, psd[k], abs2(X) / N)


def cases(tier, seed):
    q = tier == 'quick'
    out = []
    if q:
        import random
        rnd = random.Random(seed)
        extra = rnd.sample([w for w in ALL_WINDOWS if w not in ('rectangular', 'hann')], 4)
        wins = ['rectangular', 'hann'] + extra
        grid = [(1, 1), (1, 2), (2, 2), (2, 3), (2, 5), (3, 3), (3, 4), (3, 8), (4, 4), (4, 6), (4, 7)]
    else:
        wins = ALL_WINDOWS
        grid = [(N, n) for N in range(1, 5) for n in range(N, 9)] + [(5, 5), (5, 6), (5, 8), (5, 12), (6, 6), (6, 8), (6, 12), (4, 9), (4, 10), (4, 12)]
    for (N, n) in grid:
        for cplx in (False, True):
            tag = 'cx' if cplx else 're'
            for wname in wins:
                for form in ('function', 'class'):
                    if q and form == 'class' and wname not in wins[:3]:
                        continue
                    out.append(Case("periodogram:%s:%s:N=%d:NFFT=%d:%s" % (form, tag, N, n, wname), case_periodogram,
                                    dict(N=N, n=n, cplx=cplx, window=wname, form=form), timeout=60 if q else 300))
    for (N, n) in ([(2, 2), (2, 3), (3, 4), (3, 5)] if q else [(N, n) for N in (2, 3, 4) for n in range(N, 9)]):
        for cplx in (False, True):
            for wname in (wins[:3] if q else ['rectangular', 'hamming', 'tukey', 'flattop']):
                out.append(Case("periodogram2d:%s:N=%d:NFFT=%d:%s" % ('cx' if cplx else 're', N, n, wname),
                                case_periodogram_2d, dict(N=N, n=n, cplx=cplx, window=wname), timeout=60 if q else 300))
    for N in ((2, 3) if q else (2, 3, 4)):
        for n in sorted(set([2 * N - 1, 8]) if q else range(2 * N - 1, 9)):
            for cplx in (False, True):
                for method in ('CORRELATION', 'xcorr'):
                    out.append(Case("wiener-khinchin:%s:%s:N=%d:NFFT=%d" % (method, 'cx' if cplx else 're', N, n),
                                    case_wiener_khinchin, dict(N=N, n=n, cplx=cplx, method=method), timeout=120 if q else 600))
    igrid = [(3, 4, 'hamming'), (4, 4, 'hann'), (4, 5, 'hamming')]
    if not q:
        igrid += [(N, n, wn) for (N, n) in ((2, 2), (3, 3), (3, 5), (4, 6), (5, 5), (5, 8)) for wn in ('rectangular', 'hamming', 'hann', 'tukey', 'flattop', 'bartlett')]
    for (N, n, wname) in igrid:
        for form in ('function', 'class'):
            for as_list in (False, True):
                out.append(Case("periodogram-int:%s:%s:N=%d:NFFT=%d:%s" % (form, 'list' if as_list else 'int64', N, n, wname),
                                case_periodogram_int, dict(N=N, n=n, window=wname, form=form, as_list=as_list),
                                timeout=60 if q else 300))
    from .common import reuse_cases, Call
    out += reuse_cases([("speriodogram", Call('speriodogram', NFFT=4, detrend=False, scale_by_freq=False), 3, True),
                        ("speriodogram", Call('speriodogram', NFFT=4, detrend=True, scale_by_freq=False), 3, False)], q)
    return out
