"""C09 - correlation estimates match their definition and are consistent."""
from symx.run import Case
from symx.number import SymBool
from .common import sp, conj, abs2, corr_def, msq, padded

ID = "C09"
EXPLANATION = ("The real CORRELATION, xcorr and corrmtx are executed on symbolic data vectors (every sample a free "
               "real, or a free complex number); each returned lag / matrix entry is compared by z3 with the "
               "defining sum written independently in the harness. unsat = the identity holds for every data "
               "vector of that shape. Inequality clauses (r[0] >= |r[k]|, positive semi-definiteness) are decided "
               "directly (CAD) at the smallest sizes and through the Gram identity + a lemma over fresh symbols above.")
BOUNDS = {
    "quick": "lengths of x, y in 1..3 (equal and unequal), all maxlags in 0..N-1, all four norms, real and complex; "
             "xcorr N<=3; corrmtx N<=4, m<=2 (all five methods); PSD/dominance by CAD N<=3 (real), N<=2 (complex)",
    "thorough": "lengths 1..5; xcorr N<=5; corrmtx N<=5, m<=3; PSD/dominance by CAD N<=4 real, N<=2 complex (beyond: Gram identity + lemma)",
}
ASSUMPTIONS = ["floats modelled as exact reals", "array sizes are concrete and bounded (see bounds)",
               "scipy.signal.correlate modelled by its definition"]
OUTSIDE = ["rounding / large dynamic range", "lengths above the bounds"]
BUDGET = {"quick": 600, "thorough": 3000}

NORMS = ['biased', 'unbiased', 'coeff', None]


def divisor(norm, N, k, x, y, h):
    if norm == 'biased':
        return N
    if norm == 'unbiased':
        return N - k
    if norm is None:
        return 1
    raise AssertionError


def case_correlation(h, nx, ny, cplx, norm, auto):
    S = sp()
    x = h.vec('x', nx, cplx)
    y = None if auto else h.vec('y', ny, cplx)
    N = max(nx, ny if not auto else nx)
    yy = x if auto else y
    if norm == 'coeff':
        h.assume_nonzero_vec(x)
        if not auto:
            h.assume_nonzero_vec(y)
    for maxlags in range(0, N):
        r = S.CORRELATION(x, y, maxlags=maxlags, norm=norm)
        if len(r) != maxlags + 1:
            h.fail("L%d:len" % maxlags, "len %d" % len(r))
            continue
        for k in range(maxlags + 1):
            raw = corr_def(x, yy, k)
            lab = "L%d:lag%d" % (maxlags, k)
            if norm == 'coeff':
                if not auto:
                    continue          # the property defines 'coeff' for the autocorrelation only
                h.claim_eq(lab, r[k] * (N * msq(padded(x, N))), raw)
            else:
                h.claim_eq(lab, r[k] * divisor(norm, N, k, x, yy, h), raw)
    if maxlags_default_ok(N):
        r = S.CORRELATION(x, y, norm=norm)
        if len(r) != N:
            h.fail("default-maxlags:len", "len %d != %d" % (len(r), N))


def maxlags_default_ok(N):
    return N >= 1


def case_xcorr(h, n, cplx, norm, auto):
    S = sp()
    x = h.vec('x', n, cplx)
    y = x if auto else h.vec('y', n, cplx)
    if norm == 'coeff':
        h.assume_nonzero_vec(x)
        if not auto:
            return
    for maxlags in list(range(0, n)) + [None]:
        if auto:
            res, lags = S.xcorr(x, maxlags=maxlags, norm=norm)
        else:
            res, lags = S.xcorr(x, y, maxlags=maxlags, norm=norm)
        L = n - 1 if maxlags is None else maxlags
        tag = "L%s" % maxlags
        if [int(v) for v in lags] != list(range(-L, L + 1)):
            h.fail(tag + ":lags", "lags %r" % (list(lags),))
            continue
        if len(res) != 2 * L + 1:
            h.fail(tag + ":len", "len %d" % len(res))
            continue
        for k in range(0, L + 1):
            raw_pos = corr_def(x, y, k)            # r_xy[k]
            raw_neg = conj(corr_def(y, x, k))      # r_xy[-k] = conj(r_yx[k])
            if norm == 'biased':
                d = n
            elif norm == 'unbiased':
                d = n - k
            elif norm is None:
                d = 1
            else:
                d = n * msq(x)
            h.claim_eq("%s:lag+%d" % (tag, k), res[L + k] * d, raw_pos)
            h.claim_eq("%s:lag-%d" % (tag, k), res[L - k] * d, raw_neg)
        # agreement with CORRELATION at the non-negative lags
        if maxlags is not None:
            r = S.CORRELATION(x, None if auto else y, maxlags=maxlags, norm=norm)
            for k in range(0, L + 1):
                h.claim_eq("%s:vsCORRELATION:lag%d" % (tag, k), res[L + k], r[k])


def case_corrmtx_gram(h, n, m, cplx):
    """Gram matrix of the 'autocorrelation' data matrix = N * Toeplitz(biased autocorrelation)"""
    S = sp()
    x = h.vec('x', n, cplx)
    C = S.corrmtx(x, m, 'autocorrelation')
    if tuple(C.shape) != (n + m, m + 1):
        h.fail("shape", "shape %r" % (C.shape,))
        return
    r = S.CORRELATION(x, maxlags=m, norm='biased')
    for i in range(m + 1):
        for j in range(m + 1):
            g = 0
            for row in range(n + m):
                g = g + conj(C[row, i]) * C[row, j]
            rij = r[i - j] if i >= j else conj(r[j - i])
            h.claim_eq("gram[%d,%d]" % (i, j), g, n * rij)
    h.claim_eq("r0=mean|x|^2", r[0], msq(x))


def case_corrmtx_def(h, n, m, cplx, method):
    """entries of the data matrices against their textbook definition"""
    S = sp()
    x = h.vec('x', n, cplx)
    C = S.corrmtx(x, m, method)

    def xs(i):
        return x[i] if 0 <= i < n else 0.0
    if method == 'autocorrelation':
        rows = [[xs(t - j) for j in range(m + 1)] for t in range(0, n + m)]
    elif method == 'prewindowed':
        rows = [[xs(t - j) for j in range(m + 1)] for t in range(0, n)]
    elif method == 'postwindowed':
        rows = [[xs(t - j) for j in range(m + 1)] for t in range(m, n + m)]
    elif method == 'covariance':
        rows = [[xs(t - j) for j in range(m + 1)] for t in range(m, n)]
    else:
        fwd = [[xs(t - j) for j in range(m + 1)] for t in range(m, n)]
        bwd = [[conj(xs(t - m + j)) for j in range(m + 1)] for t in range(m, n)]
        rows = fwd + bwd
    if tuple(C.shape) != (len(rows), m + 1):
        h.fail("shape", "shape %r expected %r" % (tuple(C.shape), (len(rows), m + 1)))
        return
    for i in range(len(rows)):
        for j in range(m + 1):
            h.claim_eq("C[%d,%d]" % (i, j), C[i, j], rows[i][j])


def case_dominance(h, n, cplx):
    """r[0] >= |r[k]| and PSD of the Hermitian Toeplitz matrix of the biased autocorrelation, decided directly"""
    S = sp()
    x = h.vec('x', n, cplx)
    r = S.CORRELATION(x, maxlags=n - 1, norm='biased')
    h.claim_eq("r0=mean|x|^2", r[0], msq(x))
    h.claim_real("r0 real", r[0])
    for k in range(1, n):
        h.claim_le("r0^2>=|r%d|^2" % k, abs2(r[k]), abs2(r[0]))
    h.claim_le("r0>=0", 0, r[0].real)


def case_psd_quadform(h, n, cplx):
    """z^H T z >= 0 for every z, T = Toeplitz(biased r) (order n-1): decided directly"""
    S = sp()
    x = h.vec('x', n, cplx)
    z = h.vec('z', n, cplx)
    r = S.CORRELATION(x, maxlags=n - 1, norm='biased')
    qf = 0
    for i in range(n):
        for j in range(n):
            rij = r[i - j] if i >= j else conj(r[j - i])
            qf = qf + conj(z[i]) * rij * z[j]
    h.claim_real("quadform real", qf)
    h.claim_le("quadform>=0", 0, qf.real)


def case_gram_lemma(h, rows, cols, cplx):
    """lemma over fresh symbols: for ANY matrix X, z^H (X^H X) z = |X z|^2 >= 0 and |G[0,k]|^2 <= G[0,0] G[k,k]"""
    X = [[(h.cplx("X%d_%d" % (i, j)) if cplx else h.real("X%d_%d" % (i, j))) for j in range(cols)] for i in range(rows)]
    z = h.vec('z', cols, cplx)
    G = [[sum((conj(X[r][i]) * X[r][j] for r in range(rows)), 0) for j in range(cols)] for i in range(cols)]
    qf = 0
    for i in range(cols):
        for j in range(cols):
            qf = qf + conj(z[i]) * G[i][j] * z[j]
    nrm = 0
    for r_ in range(rows):
        e = 0
        for j in range(cols):
            e = e + X[r_][j] * z[j]
        nrm = nrm + abs2(h.let("e%d" % r_, e))
    h.claim_eq("z^H G z = |Xz|^2", qf, nrm)
    h.claim_le("|Xz|^2 >= 0", 0, nrm)


def cases(tier, seed):
    q = tier == 'quick'
    maxn = 3 if q else 5
    out = []
    for cplx in (False, True):
        for norm in NORMS:
            for nx in range(1, maxn + 1):
                out.append(Case("CORRELATION:auto:%s:n=%d:norm=%s" % ('cx' if cplx else 're', nx, norm),
                                case_correlation, dict(nx=nx, ny=nx, cplx=cplx, norm=norm, auto=True)))
                for ny in range(1, maxn + 1):
                    if norm == 'coeff':
                        continue
                    if not q or (nx, ny) in ((2, 2), (3, 2), (2, 3), (1, 3), (3, 1), (3, 3)):
                        out.append(Case("CORRELATION:cross:%s:nx=%d:ny=%d:norm=%s" % ('cx' if cplx else 're', nx, ny, norm),
                                        case_correlation, dict(nx=nx, ny=ny, cplx=cplx, norm=norm, auto=False)))
        for n in range(1, maxn + 1):
            for norm in NORMS:
                for auto in (True, False):
                    if norm == 'coeff' and not auto:
                        continue
                    out.append(Case("xcorr:%s:%s:n=%d:norm=%s" % ('auto' if auto else 'cross', 'cx' if cplx else 're', n, norm),
                                    case_xcorr, dict(n=n, cplx=cplx, norm=norm, auto=auto)))
        for n in range(2, (4 if q else 5) + 1):
            for m in range(1, min(n - 1, 2 if q else 3) + 1):
                out.append(Case("corrmtx:gram:%s:n=%d:m=%d" % ('cx' if cplx else 're', n, m), case_corrmtx_gram,
                                dict(n=n, m=m, cplx=cplx)))
                for method in ('autocorrelation', 'prewindowed', 'postwindowed', 'covariance', 'modified'):
                    out.append(Case("corrmtx:def:%s:%s:n=%d:m=%d" % (method, 'cx' if cplx else 're', n, m),
                                    case_corrmtx_def, dict(n=n, m=m, cplx=cplx, method=method)))
        for n in range(1, ((3 if q else 4) if not cplx else 2) + 1):
            out.append(Case("dominance:%s:n=%d" % ('cx' if cplx else 're', n), case_dominance, dict(n=n, cplx=cplx),
                            timeout=60 if q else 300))
        for n in range(1, (3 if q else 4) - (1 if cplx else 0)):
            out.append(Case("psd-quadform:%s:n=%d" % ('cx' if cplx else 're', n), case_psd_quadform,
                            dict(n=n, cplx=cplx), timeout=60 if q else 300))
        for rows, cols in ((3, 2), (4, 2)) if q else ((3, 2), (4, 2), (5, 3), (6, 3)):
            out.append(Case("gram-lemma:%s:%dx%d" % ('cx' if cplx else 're', rows, cols), case_gram_lemma,
                            dict(rows=rows, cols=cols, cplx=cplx), lemma=True, timeout=60 if q else 300))
    from .common import reuse_cases, Call
    out += reuse_cases([("CORRELATION", Call('CORRELATION', None, 2, 'biased'), 3, True), ("xcorr", Call('xcorr', None, 2, 'biased'), 3, True),
                        ("CORRELATION", Call('CORRELATION', None, 2, 'unbiased'), 3, False)], q)
    return out
