"""C07 - the PSD attribute is never stale."""
import itertools

import numpy as np

from symx.run import Case
from .common import sp

ID = "C07"
EXPLANATION = ("Histories of setter / call / read operations are executed on real Periodogram, pcorrelogram and pburg objects whose data "
               "and sampling rates are symbolic; after the history z3 decides, bin by bin and for every data value, "
               "that psd equals the psd of a freshly constructed object with the same final attribute values, that "
               "df = sampling/NFFT and that frequencies() has the length of psd. Besides the exhaustive short "
               "histories an inductive step is checked: from each abstract pre-state (never computed / clean / dirty "
               "with an ARBITRARY symbolic stale cache) one operation re-establishes the invariant, which covers "
               "histories of any length. A class sweep runs compute > change one attribute > read on ALL twelve estimator classes and "
               "compares the PSD and the exposed model parameters (ar, ma, rho, reflection) with a fresh object.")
BOUNDS = {
    "quick": "Periodogram and pburg, real data N=3 (new data N=3 and N=4), symbolic sampling; operation alphabet of 17 "
             "(Periodogram) / 12 (pburg) operations; all histories of length <= 2 after construction (+ optional initial compute); inductive step for every operation from the 3 pre-states; "
             "class sweep: 12 classes x {data, sampling, NFFT, scale_by_freq, sides} changed after a first estimate, real data at the classes' smallest sizes (N=3..5, NFFT 4->5); "
             "input-untouched: every class evaluated twice (NFFT 4 then 5) on real and complex data never writes into the caller's array and the second estimate equals a fresh object's",
    "thorough": "adds complex data and pcorrelogram (histories of length <= 2) and all histories of length 3 on real data for the three classes; class sweep on complex data too (parma / pma real only)",
}
ASSUMPTIONS = ["floats modelled as exact reals", "fft = DFT definition with exact twiddles",
               "a re-assigned sampling value fs' differs from fs (the 'unchanged value' operations cover equality)",
               "the fresh object is built from the attribute values read back from the object under test; its sides "
               "attribute is then set to the object's sides through the same setter"]
OUTSIDE = ["N > 5", "class-specific attributes of the other nine classes beyond the five of the class sweep (lag, order, NSIG, tapers: the shared Spectrum setters are exercised on Periodogram / pburg / pcorrelogram)",
           "random long histories (subsumed by the inductive step where it holds)"]
BUDGET = {"quick": 1200, "thorough": 3400}


# ---------------------------------------------------------------------------
def build(h, cls, cplx):
    S = sp()
    env = {}
    env['x'] = h.vec('x', 3, cplx)
    env['x2'] = h.vec('y', 3, cplx)
    env['x3'] = h.vec('z', 4, cplx)
    env['fs'] = h.real('fs', positive=True)
    env['fs2'] = h.real('fs2', positive=True)
    h.assume(env['fs'] != env['fs2'], "fs2 != fs")
    if cls == 'Periodogram':
        p = S.Periodogram(env['x'], sampling=env['fs'], window='hamming', NFFT=4)
    elif cls == 'pcorrelogram':
        p = S.pcorrelogram(env['x'], sampling=env['fs'], lag=1, window='hamming', NFFT=4)
    else:
        p = S.pburg(env['x'], 1, NFFT=4, sampling=env['fs'])
    return p, env


def fresh_like(p, cls):
    S = sp()
    if cls == 'Periodogram':
        f = S.Periodogram(p.data, sampling=p.sampling, window=p.window, NFFT=p.NFFT, scale_by_freq=p.scale_by_freq,
                          detrend=p.detrend)
    elif cls == 'pcorrelogram':
        f = S.pcorrelogram(p.data, sampling=p.sampling, lag=p.lag, window=p.window, NFFT=p.NFFT,
                           scale_by_freq=p.scale_by_freq, detrend=p.detrend)
    else:
        f = S.pburg(p.data, p.ar_order, NFFT=p.NFFT, sampling=p.sampling, scale_by_freq=p.scale_by_freq)
    return f


def op_apply(p, env, op):
    k = op
    if k == 'data<-new':
        p.data = env['x2']
    elif k == 'data<-longer':
        p.data = env['x3']
    elif k == 'data<-same':
        p.data = p.data
    elif k == 'NFFT<-5':
        p.NFFT = 5
    elif k == 'NFFT<-8':
        p.NFFT = 8
    elif k == 'NFFT<-None':
        p.NFFT = None
    elif k == 'NFFT<-nextpow2':
        p.NFFT = 'nextpow2'
    elif k == 'NFFT<-same':
        p.NFFT = p.NFFT
    elif k == 'sampling<-new':
        p.sampling = env['fs2']
    elif k == 'sampling<-same':
        p.sampling = p.sampling
    elif k == 'window<-new':
        p.window = 'bartlett' if p.window != 'bartlett' else 'hamming'
    elif k == 'window<-same':
        p.window = p.window
    elif k == 'detrend<-mean':
        p.detrend = 'mean' if p.detrend is None else None
    elif k == 'scale<-toggle':
        p.scale_by_freq = not p.scale_by_freq
    elif k == 'sides<-twosided':
        p.sides = 'twosided'
    elif k == 'sides<-centerdc':
        p.sides = 'centerdc'
    elif k == 'sides<-default':
        p.sides = 'default'
    elif k == 'sides<-same':
        p.sides = p.sides
    elif k == 'order<-2':
        p.ar_order = 2 if p.ar_order != 2 else 1
    elif k == 'lag<-2':
        p.lag = 2 if p.lag != 2 else 1
    elif k == 'call':
        p()
    elif k == 'read':
        _ = p.psd
    elif k == 'frequencies':
        _ = p.frequencies()
    else:
        raise KeyError(k)


OPS = {
    'Periodogram': ['data<-new', 'data<-longer', 'data<-same', 'NFFT<-5', 'NFFT<-8', 'NFFT<-None', 'NFFT<-same',
                    'sampling<-new', 'sampling<-same', 'window<-new', 'window<-same', 'detrend<-mean', 'scale<-toggle',
                    'sides<-twosided', 'sides<-centerdc', 'sides<-same', 'call', 'read'],
    'pcorrelogram': ['data<-new', 'NFFT<-8', 'NFFT<-None', 'sampling<-new', 'window<-new', 'lag<-2', 'scale<-toggle',
                     'sides<-twosided', 'sides<-same', 'call', 'read'],
    'pburg': ['data<-new', 'data<-longer', 'NFFT<-5', 'NFFT<-8', 'NFFT<-same', 'sampling<-new', 'sampling<-same',
              'scale<-toggle', 'sides<-twosided', 'sides<-centerdc', 'sides<-same', 'order<-2', 'call', 'read'],
}


def final_claims(h, p, cls, tag=""):
    """psd = psd of a fresh object with the same final attributes; df and axis length"""
    from .zoo import Degenerate
    want_sides = p.sides
    f = fresh_like(p, cls)
    try:
        if f.sides != want_sides:
            _ = f.psd
            f.sides = want_sides
        expect = f.psd
        got = p.psd
    except ValueError:
        return      # degenerate data rejected by the estimator (Burg): not a staleness matter
    h.claim_eq(tag + "df=sampling/NFFT", p.df * p.NFFT, p.sampling)
    if len(got) != len(expect):
        h.fail(tag + "len(psd)", "len(psd)=%d, fresh object gives %d" % (len(got), len(expect)))
        return
    if len(p.frequencies()) != len(got):
        h.fail(tag + "len(frequencies)", "len(frequencies())=%d len(psd)=%d (sides=%s)" % (len(p.frequencies()), len(got), p.sides))
    if p.sides != want_sides:
        h.fail(tag + "sides-lost", "sides was %s before the read, %s after" % (want_sides, p.sides))
    for k in range(len(got)):
        h.claim_eq("%spsd[%d]=fresh" % (tag, k), got[k], expect[k])


def case_history(h, cls, cplx, ops, compute_first):
    p, env = build(h, cls, cplx)
    try:
        if compute_first:
            _ = p.psd
        for op in ops:
            op_apply(p, env, op)
    except ValueError:
        return
    final_claims(h, p, cls)


def case_inductive(h, cls, cplx, pre, op):
    """one operation from an abstract pre-state; afterwards the representation invariant must hold again"""
    p, env = build(h, cls, cplx)
    try:
        if pre == 'clean':
            _ = p.psd
        elif pre == 'dirty':
            _ = p.psd
            L = len(p._Spectrum__psd)
            p._Spectrum__psd = h.real_vec('stale', L)     # arbitrary stale content
            p.modified = True
        op_apply(p, env, op)
    except ValueError:
        return
    # invariant: range object in step with the attributes
    h.claim_true("I:range.N=NFFT", p._range.N == p.NFFT)
    h.claim_eq("I:range.sampling=sampling", p._range.sampling, p.sampling)
    # invariant: a cache marked clean is the estimate for the current attributes, in the stored sides
    if p.modified is False and p._Spectrum__psd is not None:
        cache = p._Spectrum__psd
        f = fresh_like(p, cls)
        try:
            _ = f.psd
            if f.sides != p.sides:
                f.sides = p.sides
            expect = f.psd
        except ValueError:
            return
        if len(cache) != len(expect):
            h.fail("I:clean-cache:len", "cache %d fresh %d" % (len(cache), len(expect)))
            return
        for k in range(len(cache)):
            h.claim_eq("I:clean-cache[%d]=fresh" % k, cache[k], expect[k])
    # and the observable consequence
    final_claims(h, p, cls, tag="read:")


SWEEP_OPS = ('data<-new', 'sampling<-new', 'NFFT<-5', 'scale<-toggle', 'sides<-twosided')


def case_sweep(h, cls, cplx, op):
    """every estimator class: compute, change one attribute, read: the PSD and the exposed model parameters are those
    of a fresh object with the final attribute values (nothing survives from the first estimate)"""
    from . import zoo
    N = zoo.DEFAULT_N[cls]
    ns = zoo.NSYM.get(cls)
    x = zoo.data(h, cls, cplx)
    y = h.vec('y', N, cplx) if ns is None else h.mixed_vec('y', N, cplx, 1, offset=1)
    fs = h.real('fs', positive=True)
    fs2 = h.real('fs2', positive=True)
    h.assume(fs != fs2, "fs2 != fs")
    p = zoo.make(cls, x, n=4, fs=fs)
    try:
        _ = p.psd
        if op == 'data<-new':
            p.data = y
        elif op == 'sampling<-new':
            p.sampling = fs2
        elif op == 'NFFT<-5':
            p.NFFT = 5
        elif op == 'scale<-toggle':
            p.scale_by_freq = not p.scale_by_freq
        elif op == 'sides<-twosided':
            p.sides = 'twosided'
        want_sides = p.sides
        got = p.psd
        f = zoo.make(cls, p.data, n=p.NFFT, fs=p.sampling, scale=p.scale_by_freq)
        if f.sides != want_sides:
            _ = f.psd
            f.sides = want_sides
        expect = f.psd
    except ValueError:
        return          # degenerate data rejected by the estimator
    h.claim_eq("df=sampling/NFFT", p.df * p.NFFT, p.sampling)
    if len(got) != len(expect):
        h.fail("len(psd)", "len(psd)=%d, fresh object gives %d" % (len(got), len(expect)))
        return
    if len(p.frequencies()) != len(got):
        h.fail("len(frequencies)", "len(frequencies())=%d len(psd)=%d" % (len(p.frequencies()), len(got)))
    for k in range(len(got)):
        h.claim_eq("psd[%d]=fresh" % k, got[k], expect[k])
    for attr in ('ar', 'ma', 'rho', 'reflection'):
        a, b = getattr(p, attr, None), getattr(f, attr, None)
        if a is None or b is None:
            continue
        if np.ndim(a) == 0:
            h.claim_eq("%s=fresh" % attr, a, b)
        elif len(a) == len(b):
            for i in range(len(a)):
                h.claim_eq("%s[%d]=fresh" % (attr, i), a[i], b[i])
        else:
            h.fail("%s:len" % attr, "%d vs fresh %d" % (len(a), len(b)))


def case_input_untouched(h, cls, cplx):
    """evaluating an estimator object (twice, with an attribute change in between) never writes into the caller's array,
    and the second estimate is the one a fresh object gives"""
    from . import zoo
    x = zoo.data(h, cls, cplx)
    pristine = [x[i] for i in range(len(x))]
    p = zoo.make(cls, x, n=4, fs=1.)
    try:
        _ = p.psd
        p.NFFT = 5
        got = p.psd
        f = zoo.make(cls, h.const_vec(pristine, cplx) if not h.is_sym() else _fresh_copy(pristine, cplx), n=5, fs=1.)
        expect = f.psd
    except ValueError:
        return
    for i in range(len(pristine)):
        h.claim_eq("caller's sample %d untouched" % i, x[i], pristine[i])
    if len(got) != len(expect):
        h.fail("len(psd)", "%d vs fresh %d" % (len(got), len(expect)))
        return
    for k in range(len(got)):
        h.claim_eq("second estimate psd[%d]=fresh object on the original samples" % k, got[k], expect[k])


def _fresh_copy(vals, cplx):
    from symx.array import SymArray
    return SymArray.make(list(vals), cplx=cplx)


def cases(tier, seed):
    q = tier == 'quick'
    out = []
    from . import zoo
    for cls in zoo.ALL:
        for cplx in (True, False):
            if cls in zoo.NSYM and (cplx or q):
                continue
            out.append(Case("input-untouched:%s:%s" % (cls, 'cx' if cplx else 're'), case_input_untouched, dict(cls=cls, cplx=cplx),
                            timeout=60 if q else 300, max_paths=8, feas_timeout=3, wall=300 if q else 900, max_decisions=24))
    for cls in zoo.ALL:
        for cplx in ((False,) if q else (False, True)):
            for op in SWEEP_OPS:
                if cplx and (op == 'sides<-twosided' or cls in zoo.NSYM):
                    continue
                out.append(Case("class-sweep:%s:%s:compute>%s>read" % (cls, 'cx' if cplx else 're', op), case_sweep,
                                dict(cls=cls, cplx=cplx, op=op), timeout=60 if q else 300, max_paths=8, feas_timeout=3,
                                wall=300 if q else 900, max_decisions=24))
    combos = [('Periodogram', False), ('pburg', False)]
    if not q:
        combos += [('Periodogram', True), ('pburg', True), ('pcorrelogram', False), ('pcorrelogram', True)]
    for cls, cplx in combos:
        tag = "%s:%s" % (cls, 'cx' if cplx else 're')
        ops = OPS[cls]
        for pre in ('never-computed', 'clean', 'dirty'):
            for op in ops:
                out.append(Case("inductive:%s:%s:%s" % (tag, pre, op), case_inductive,
                                dict(cls=cls, cplx=cplx, pre=pre, op=op), timeout=60, max_paths=8, feas_timeout=3))
        maxlen = 2 if (q or cplx) else 3        # length-3 histories: real data only (the setters do not look at the data type)
        for ln in range(1, maxlen + 1):
            for seq in itertools.product(ops, repeat=ln):
                if cplx and cls == 'pburg' and 'order<-2' in seq and ('NFFT<-5' in seq or 'data<-longer' in seq):
                    continue        # second complex lattice stage on the 5-point grid / 4 samples: beyond the case budget
                for first in ((True,) if ln == maxlen and ln > 1 else (False, True)):
                    out.append(Case("history:%s:%s%s" % (tag, 'compute>' if first else '', ">".join(seq)), case_history,
                                    dict(cls=cls, cplx=cplx, ops=list(seq), compute_first=first), timeout=60,
                                    max_paths=8, feas_timeout=3, max_replays=2))
    return out
