"""C08 - sampling-rate and scale_by_freq normalisation is uniform."""
import math

import numpy as np

from symx.run import Case
from .common import sp, conj, abs2
from . import zoo

ID = "C08"
EXPLANATION = ("arma2psd is executed on symbolic complex coefficient vectors, symbolic rho and T; every PSD class is "
               "constructed twice on the same symbolic data with scale_by_freq False/True (symbolic sampling rate) and "
               "with two symbolic sampling rates. z3 decides bin by bin that arma2psd = (rho/T)|B(f)|^2/|A(f)|^2, that "
               "scaling multiplies exactly once by 2*pi/df (df = sampling/NFFT, also what .df reports), and the "
               "documented dependence on the sampling rate (axis proportional, AR/MA/ARMA spectra divided, "
               "Fourier/multitaper/subspace values unchanged, minimum variance proportional).")
BOUNDS = {
    "quick": "arma2psd: len(A), len(B) <= 2 complex, NFFT in {3,4,5,8}; classes: all 12 at their minimal sizes "
             "(N 3..5, order 1, NFFT in {4,5}; real data, complex for the cheap ones); the flag toggled off -> on -> off on ONE object after a first estimate (12 classes, real data, NFFT=5)",
    "thorough": "arma2psd NFFT 3..8, len <= 2; classes real and complex, NFFT in {4,5}, order <= 2 where the estimator allows",
}
ASSUMPTIONS = ["floats modelled as exact reals; numpy.pi enters as the exact rational value of the double",
               "fft = DFT definition", "lstsq = exact normal equations (full rank)", "svd = arbitrary (S, Vh) (MUSIC/EV)",
               "multitaper: tapers/eigenvalues supplied as constants", "sampling > 0, rho > 0"]
OUTSIDE = ["sampling range (1e-2, 1e5) is subsumed by sampling > 0", "orders and lengths above the bounds"]
BUDGET = {"quick": 900, "thorough": 3400}


def poly_at(h, coeffs, n, k):
    """1 + sum_j c_j w_n^(k (j+1))"""
    if h.is_sym():
        from symx import stubs
        tw = stubs.twiddles(n)
        acc = 1
        for j, c in enumerate(coeffs):
            acc = acc + c * tw(k * (j + 1))
        return acc
    acc = 1 + 0j
    for j, c in enumerate(coeffs):
        acc += complex(c) * np.exp(-2j * np.pi * k * (j + 1) / n)
    return acc


def case_arma2psd(h, na, nb, n):
    S = sp()
    A = h.complex_vec('a', na) if na else None
    B = h.complex_vec('b', nb) if nb else None
    rho = h.real('rho', positive=True)
    T = h.real('T', positive=True)
    psd = S.arma2psd(A=A, B=B, rho=rho, T=T, NFFT=n)
    if len(psd) != n:
        h.fail("len", "len %d" % len(psd))
        return
    for k in range(n):
        num = abs2(poly_at(h, B, n, k)) if nb else 1
        den = abs2(poly_at(h, A, n, k)) if na else 1
        h.claim_eq("bin%d" % k, psd[k] * T * den, rho * num)
        h.claim_real("bin%d real" % k, psd[k])


def case_scale(h, name, cplx, n, order):
    N = zoo.DEFAULT_N[name] + (order - 1)
    x = zoo.data(h, name, cplx, N)
    fs = h.real('fs', positive=True)
    kw = dict(order=order)
    pF = zoo.make(name, x, n=n, fs=fs, scale=False, **kw)
    pT = zoo.make(name, x, n=n, fs=fs, scale=True, **kw)
    try:
        a = zoo.psd_of(pF)
        b = zoo.psd_of(pT)
    except zoo.Degenerate:
        return
    if len(a) != len(b):
        h.fail("len", "%d vs %d" % (len(a), len(b)))
        return
    h.claim_eq("df=sampling/NFFT", pT.df * pT.NFFT, fs)
    factor = 2 * math.pi * pT.NFFT / fs
    for k in range(len(a)):
        h.claim_eq("bin%d:scaled = unscaled*2pi/df" % k, b[k], a[k] * factor)


def case_toggle(h, name, cplx, n):
    """the same relation on ONE object whose flag is switched after a first estimate, and switched back"""
    x = zoo.data(h, name, cplx)
    fs = h.real('fs', positive=True)
    p = zoo.make(name, x, n=n, fs=fs, scale=False)
    try:
        a = [v for v in zoo.psd_of(p)]
        p.scale_by_freq = True
        b = [v for v in zoo.psd_of(p)]
        p.scale_by_freq = False
        c = [v for v in zoo.psd_of(p)]
    except zoo.Degenerate:
        return
    if not (len(a) == len(b) == len(c)):
        h.fail("len", "%d %d %d" % (len(a), len(b), len(c)))
        return
    factor = 2 * math.pi * n / fs
    for k in range(len(a)):
        h.claim_eq("bin%d:off->on = unscaled*2pi/df" % k, b[k], a[k] * factor)
        h.claim_eq("bin%d:off->on->off = unscaled" % k, c[k], a[k])


def case_sampling(h, name, cplx, n, order):
    N = zoo.DEFAULT_N[name] + (order - 1)
    x = zoo.data(h, name, cplx, N)
    f1 = h.real('fs1', positive=True)
    f2 = h.real('fs2', positive=True)
    p1 = zoo.make(name, x, n=n, fs=f1, scale=False, order=order)
    p2 = zoo.make(name, x, n=n, fs=f2, scale=False, order=order)
    try:
        a, b = zoo.psd_of(p1), zoo.psd_of(p2)
    except zoo.Degenerate:
        return
    fa, fb = p1.frequencies(), p2.frequencies()
    if not (len(a) == len(b) == len(fa) == len(fb)):
        h.fail("len", "psd %d %d freq %d %d" % (len(a), len(b), len(fa), len(fb)))
        return
    kind = zoo.KIND[name]
    for k in range(len(a)):
        h.claim_eq("freq%d proportional to sampling" % k, fb[k] * f1, fa[k] * f2)
        h.claim_eq("freq%d = k*sampling/NFFT" % k, fa[k] * p1.NFFT, k * f1)
        if kind in ('ar', 'ma', 'arma'):
            h.claim_eq("bin%d:model spectrum divided by sampling" % k, b[k] * f2, a[k] * f1)
        elif kind == 'minvar':
            h.claim_eq("bin%d:minimum variance proportional to sampling" % k, b[k] * f1, a[k] * f2)
        else:
            h.claim_eq("bin%d:unchanged" % k, b[k], a[k])


def cases(tier, seed):
    q = tier == 'quick'
    out = []
    for n in ((3, 4, 5, 8) if q else range(3, 9)):
        for na, nb in ((1, 0), (2, 0), (0, 1), (0, 2), (1, 1), (2, 2), (2, 1)):
            if max(na, nb) >= n:
                continue
            out.append(Case("arma2psd:na=%d:nb=%d:NFFT=%d" % (na, nb, n), case_arma2psd, dict(na=na, nb=nb, n=n),
                            timeout=60 if q else 300))
    cheap = ('Periodogram', 'pcorrelogram', 'MultiTapering', 'pcovar', 'pmodcovar', 'pmusic', 'pev')
    for name in zoo.ALL:
        for cplx in (False, True):
            if cplx and q and name not in cheap:
                continue
            if cplx and name in ('parma', 'pma'):
                continue
            for n in (4, 5):
                orders = (1,) if (q or name in ('parma', 'pma', 'pminvar', 'pmusic', 'pev', 'Periodogram',
                                                'pcorrelogram', 'MultiTapering')) else (1, 2)
                for order in orders:
                    if cplx and order == 2 and n == 5 and name in ('pburg', 'pyule'):
                        continue        # second lattice stage x generic degree-5 twiddles on complex data exceeds the budget
                    tag = "%s:%s:NFFT=%d:order=%d" % (name, 'cx' if cplx else 're', n, order)
                    out.append(Case("scale:" + tag, case_scale, dict(name=name, cplx=cplx, n=n, order=order),
                                    timeout=60 if q else 300, max_paths=8, feas_timeout=3))
                    out.append(Case("sampling:" + tag, case_sampling, dict(name=name, cplx=cplx, n=n, order=order),
                                    timeout=60 if q else 300, max_paths=8, feas_timeout=3))
    for name in zoo.ALL:
        for cplx in ((False,) if q else (False, True)):
            if cplx and name in zoo.NSYM:
                continue
            out.append(Case("toggle:%s:%s:NFFT=5" % (name, 'cx' if cplx else 're'), case_toggle, dict(name=name, cplx=cplx, n=5),
                            timeout=60 if q else 300, max_paths=8, feas_timeout=3, wall=400 if q else 900))
    return out
