"""C06 - side conversions are lossless, length-consistent and axis-aligned."""
import itertools

import numpy as np

from symx.run import Case
from .common import sp

ID = "C06"
EXPLANATION = ("The stored PSD of a real Spectrum object is replaced by a vector of free reals (length prescribed by "
               "frequencies(sides)); every ordered pair of sides is converted through the real sides setter, "
               "get_converted_psd and the tools helpers, and z3 decides for every entry that the value sits on the "
               "entry whose reported frequency equals the source frequency (one-sided interior values split "
               "equally), that the length equals len(frequencies(target)) and that total power is preserved. This one-step "
               "argument is inductive in the number of conversions; sequences of up to 4 conversions are also executed directly.")
BOUNDS = {
    "quick": "NFFT 2..7 (even and odd), real and complex datatype, all 9 ordered pairs of sides, via sides setter and "
             "get_converted_psd; tools helpers for even lengths 4,6 (+5,7 for the two-sided pair); sequences of length <=3 for NFFT 4,5",
    "thorough": "NFFT 2..12; tools helpers lengths 2..12; all sequences of length <=4 for NFFT 4..7",
}
ASSUMPTIONS = ["sampling is set to NFFT so that reported frequencies are exact bin numbers",
               "for real data a stored two-sided/centerdc PSD is assumed symmetric (P[k] = P[NFFT-k])",
               "the stored PSD is injected through the private cache attribute; data values are irrelevant"]
OUTSIDE = ["numerical rounding of the factors 2 and 1/2 (exact in binary floating point anyway)"]
BUDGET = {"quick": 900, "thorough": 3400}

SIDES = ['onesided', 'twosided', 'centerdc']


def make_obj(n, cplx):
    S = sp()
    data = np.arange(1, n + 1).astype(complex if cplx else float)
    if cplx:
        data = data + 1j
    return S.Spectrum(data, sampling=float(n))


def inject(p, sides, v):
    p._Spectrum__psd = v
    p._Spectrum__sides = sides
    p.modified = False


def stored_vector(h, p, n, sides, cplx):
    """free reals of the length frequencies(sides) prescribes; symmetric two-sided content for real data"""
    L = len(p.frequencies(sides))
    if sides == 'onesided' or cplx:
        return h.real_vec('v', L), L
    # real datatype, two-sided layouts: symmetric content defined on bins 0..n//2
    half = h.real_vec('v', n // 2 + 1)
    fr = p.frequencies(sides)
    vals = []
    for j in range(L):
        f = fr[j]
        k = f % n
        if float(k) != int(k):
            # axis off the bin grid (odd NFFT, centerdc): fall back to free values
            return h.real_vec('w', L), L
        k = int(k)
        vals.append(half[min(k, n - k)])
    if h.is_sym():
        from symx.array import SymArray
        return SymArray.make(vals), L
    return np.array(vals, dtype=float), L


def alpha(h, freqs, v, n, sides):
    """two-sided frequency-indexed content of a stored vector; None if the axis is off the bin grid"""
    a = [0] * n
    for j, f in enumerate(freqs):
        k = f % n
        if float(k) != int(k):
            return None
        k = int(k)
        if sides == 'onesided':
            if k == 0 or 2 * k == n:
                a[k] = a[k] + v[j]
            else:
                a[k] = a[k] + v[j] / 2
                a[n - k] = a[n - k] + v[j] / 2
        else:
            a[k] = a[k] + v[j]
    return a


def expected_entry(a, f, n, sides):
    k = f % n
    if float(k) != int(k):
        return None
    k = int(k)
    if sides == 'onesided':
        if k == 0 or 2 * k == n:
            return a[k]
        return a[k] + a[n - k]
    return a[k]


def check_conversion(h, tag, src_freqs, v, n, s_from, res, dst_freqs, s_to):
    if len(res) != len(dst_freqs):
        h.fail(tag + ":len", "len(result)=%d len(frequencies(%s))=%d" % (len(res), s_to, len(dst_freqs)))
        return
    a = alpha(h, src_freqs, v, n, s_from)
    if a is None:
        h.fail(tag + ":source-axis-off-grid", "frequencies(%s) not on the k*sampling/NFFT grid" % s_from)
        return
    tot_src = sum(v[j] for j in range(len(v)))
    tot = 0
    for j in range(len(res)):
        e = expected_entry(a, dst_freqs[j], n, s_to)
        if e is None:
            h.fail(tag + ":target-axis-off-grid", "frequencies(%s)[%d]=%r not on the grid" % (s_to, j, dst_freqs[j]))
            return
        h.claim_eq("%s:entry%d" % (tag, j), res[j], e)
        tot = tot + res[j]
    h.claim_eq(tag + ":power", tot, tot_src)


def case_convert(h, n, cplx, s_from, s_to, api):
    p = make_obj(n, cplx)
    v, L = stored_vector(h, p, n, s_from, cplx)
    inject(p, s_from, v)
    src_f = p.frequencies(s_from)
    dst_f = p.frequencies(s_to)
    if api == 'get_converted_psd':
        res = p.get_converted_psd(s_to)
        if p.sides != s_from:
            h.fail("get_converted_psd changed sides")
    else:
        p.sides = s_to
        res = p.psd
        if p.sides != s_to:
            h.fail("sides not updated")
        dst_f = p.frequencies()
    check_conversion(h, "%s->%s" % (s_from, s_to), src_f, v, n, s_from, res, dst_f, s_to)


def case_tools(h, n, helper):
    """tools helpers on a bare vector of length prescribed by an NFFT=n axis"""
    S = sp()
    T = S.tools
    p = make_obj(n, False)
    s_from, s_to = {'twosided_2_onesided': ('twosided', 'onesided'), 'onesided_2_twosided': ('onesided', 'twosided'),
                    'twosided_2_centerdc': ('twosided', 'centerdc'), 'centerdc_2_twosided': ('centerdc', 'twosided')}[helper]
    v, L = stored_vector(h, p, n, s_from, helper in ('twosided_2_centerdc', 'centerdc_2_twosided'))
    res = getattr(T, helper)(v)
    check_conversion(h, helper, p.frequencies(s_from), v, n, s_from, res, p.frequencies(s_to), s_to)


def case_arma2psd_centerdc(h, n):
    """arma2psd(sides='centerdc') = the default two-sided output moved to the centerdc axis"""
    S = sp()
    a = h.complex_vec('a', 1)
    two = S.arma2psd(A=a, NFFT=n, T=1.0, rho=1.0)
    cen = S.arma2psd(A=a, NFFT=n, T=1.0, rho=1.0, sides='centerdc')
    p = make_obj(n, True)
    check_conversion(h, "arma2psd", p.frequencies('twosided'), two, n, 'twosided', cen, p.frequencies('centerdc'), 'centerdc')


def case_sequence(h, n, cplx, seq):
    """direct execution of a conversion history: final PSD = direct conversion; return to start restores the values"""
    p = make_obj(n, cplx)
    start = seq[0]
    v, L = stored_vector(h, p, n, start, cplx)
    inject(p, start, v)
    for s in seq[1:]:
        p.sides = s
    final = p.psd
    q = make_obj(n, cplx)
    v2 = v.copy()
    inject(q, start, v2)
    direct = q.get_converted_psd(seq[-1]) if seq[-1] != start else v2
    if len(final) != len(direct):
        h.fail("path-dependence:len", "%d vs %d" % (len(final), len(direct)))
        return
    for j in range(len(final)):
        h.claim_eq("path-independent:entry%d" % j, final[j], direct[j])


def cases(tier, seed):
    q = tier == 'quick'
    out = []
    ns = range(2, 8) if q else range(2, 13)
    for n in ns:
        for cplx in (False, True):
            for s_from in SIDES:
                for s_to in SIDES:
                    if cplx and 'onesided' in (s_from, s_to):
                        continue
                    for api in ('get_converted_psd', 'sides-setter'):
                        out.append(Case("convert:%s:n=%d:%s:%s->%s:%s" % ('complex' if cplx else 'real', n,
                                        'even' if n % 2 == 0 else 'odd', s_from, s_to, api),
                                        case_convert, dict(n=n, cplx=cplx, s_from=s_from, s_to=s_to, api=api), timeout=30, max_replays=40))
    for n in ((4, 6, 5, 7) if q else range(2, 13)):
        for helper in ('twosided_2_onesided', 'onesided_2_twosided', 'twosided_2_centerdc', 'centerdc_2_twosided'):
            if n % 2 and 'onesided' in helper:
                continue
            out.append(Case("tools:%s:n=%d:%s" % (helper, n, 'even' if n % 2 == 0 else 'odd'), case_tools,
                            dict(n=n, helper=helper), timeout=30, max_replays=40))
    for n in ((4, 5) if q else (4, 5, 6, 7, 8)):
        out.append(Case("arma2psd:centerdc:n=%d:%s" % (n, 'even' if n % 2 == 0 else 'odd'), case_arma2psd_centerdc,
                        dict(n=n), timeout=20, max_replays=40))
    maxlen = 3 if q else 4
    for n in ((4, 5) if q else (4, 5, 6, 7)):
        for cplx in (False, True):
            sides = SIDES if not cplx else SIDES[1:]
            for ln in range(2, maxlen + 1):
                for seq in itertools.product(sides, repeat=ln + 1):
                    if any(seq[i] == seq[i + 1] for i in range(ln)):
                        continue
                    out.append(Case("sequence:%s:n=%d:%s:%s" % ('complex' if cplx else 'real', n,
                                    'even' if n % 2 == 0 else 'odd', ">".join(seq)), case_sequence,
                                    dict(n=n, cplx=cplx, seq=list(seq)), timeout=30, max_replays=40))
    return out
