"""C02 - every estimator puts spectral values on the frequency axis it reports."""
import numpy as np

from symx.run import Case
from symx.number import SymBool, Sym, ctx
from .common import sp, conj, abs2, corr_def
from . import zoo

ID = "C02"
EXPLANATION = ("(1) every PSD class is constructed on symbolic data with a symbolic sampling rate and NFFT in {None, 'nextpow2', even, odd}; "
               "z3 decides len(psd) = len(frequencies()) = NFFT/2+1 | (NFFT+1)/2 | NFFT, Im(psd)=0 and frequencies()[j] = j*sampling/NFFT. "
               "(2) axis alignment as an identity: psd[j] equals the estimator's defining spectrum evaluated at frequencies()[j] - decided here for "
               "pcorrelogram (windowed unbiased lag sequence built in the harness) and pminvar (folding of the function output); the same identity "
               "is decided for the periodogram in C01, the AR/MA/ARMA classes in C15, MUSIC/EV in C17 and multitaper in C19. "
               "(3) tone clause where it is exact: an on-grid complex exponential A*exp(2 pi i k t/NFFT) (A symbolic) gives the maximum at the entry "
               "whose frequency is that of bin k for periodogram and correlogram (every k, incl. negative frequencies), and a real on-grid sinusoid "
               "(symbolic amplitude and phase) peaks at |f| in the periodogram.")
BOUNDS = {
    "quick": "(1) 12 classes x real/complex, N at class minimum (3..5), NFFT in {None, 'nextpow2', 4, 5}; (2) N=3, lag 1, NFFT in {4,5}; m=2, N=4; "
             "(3) N in {3,4}, NFFT in {4,5}, all bins k",
    "thorough": "adds NFFT in {6,7,8}, N+1, lag 2",
}
ASSUMPTIONS = ["floats modelled as exact reals", "fft = DFT definition; lstsq exact; svd arbitrary", "sampling > 0",
               "window samples enter as exact rationals of the floats the window code returns"]
OUTSIDE = ["the 'within one bin' tone clause for Burg, Yule-Walker, ARMA and minimum variance and the taper-bandwidth clause for multitaper: they need a "
           "dominant-but-noisy tone (a noiseless tone makes those recursions singular), an inequality over all perturbations beyond CAD at any useful size; "
           "for these classes clause group (2) is what is decided", "exact tone recovery of covariance/modified covariance (their spectrum is infinite at the "
           "pole; exact pole recovery is decided in C14)", "finiteness beyond 'recorded denominators are non-zero on the path' (degenerate data excluded)"]
BUDGET = {"quick": 900, "thorough": 3400}


def expected_nfft(spec, N):
    if spec is None:
        return N
    if spec == 'nextpow2':
        n = 1
        while n < N:
            n *= 2
        return n
    return spec


def case_shape(h, name, cplx, nfft):
    N = zoo.DEFAULT_N[name]
    x = zoo.data(h, name, cplx, N)
    fs = h.real('fs', positive=True)
    n = expected_nfft(nfft, N)
    kw = {'lag': 1} if name == 'pcorrelogram' else {}
    p = zoo.make(name, x, n=nfft, fs=fs, scale=False, **kw)
    try:
        psd = zoo.psd_of(p)
    except zoo.Degenerate:
        return
    fr = p.frequencies()
    L = zoo.expected_len(n, cplx)
    if p.NFFT != n:
        h.fail("NFFT", "NFFT attribute %r expected %d" % (p.NFFT, n))
    if len(psd) != L or len(fr) != L:
        h.fail("len", "len(psd)=%d len(frequencies())=%d expected %d (NFFT=%d)" % (len(psd), len(fr), L, n))
        return
    if p.sides != ('twosided' if cplx else 'onesided'):
        h.fail("sides", "default sides %s" % p.sides)
    for j in range(L):
        h.claim_real("psd[%d] real" % j, psd[j])
        h.claim_eq("frequencies()[%d] = %d*sampling/NFFT" % (j, j), fr[j] * n, j * fs)


def tw(h, n, e):
    """exp(-2 pi i e / n)"""
    if h.is_sym():
        from symx import stubs
        return stubs.twiddles(n)(e)
    return np.exp(-2j * np.pi * e / n)


def case_correlogram_axis(h, cplx, N, lag, n):
    S = sp()
    x = h.vec('x', N, cplx)
    fs = h.real('fs', positive=True)
    p = S.pcorrelogram(x, sampling=fs, lag=lag, window='hamming', NFFT=n, scale_by_freq=False)
    psd = p.psd
    w = np.asarray(S.Window(2 * lag + 1, 'hamming').data, dtype=float)[lag:]      # w[0] centre .. w[lag]
    L = zoo.expected_len(n, cplx)
    if len(psd) != L:
        h.fail("len", "len %d expected %d" % (len(psd), L))
        return
    r = [corr_def(x, x, m) / (N - m) for m in range(lag + 1)]
    for j in range(L):
        acc = r[0]
        for m in range(1, lag + 1):
            acc = acc + float(w[m]) * (r[m] * tw(h, n, j * m) + conj(r[m]) * tw(h, n, -j * m))
        fold = 1
        if not cplx and j != 0 and not (n % 2 == 0 and j == n // 2):
            fold = 2
        h.claim_eq("psd[%d] = %d * windowed lag spectrum at bin %d" % (j, fold, j), psd[j], fold * acc.real)


def case_minvar_axis(h, cplx, N, m, n):
    S = sp()
    x = h.vec('x', N, cplx)
    fs = h.real('fs', positive=True)
    p = S.pminvar(x, m, NFFT=n, sampling=fs)
    try:
        p()
        psd = p.psd
        ref = S.minvar(x, m, sampling=fs, NFFT=n)[0]
    except ValueError:
        return
    L = zoo.expected_len(n, cplx)
    if len(psd) != L:
        h.fail("len", "len %d expected %d" % (len(psd), L))
        return
    for j in range(L):
        h.claim_eq("psd[%d] = %s minvar(...)[%d]" % (j, '' if cplx else '2 *', j), psd[j], (1 if cplx else 2) * ref[j])


def case_tone(h, est, N, n, k):
    """complex exponential on bin k of the NFFT grid, symbolic complex amplitude"""
    S = sp()
    A = h.cplx('A')
    h.assume(A != 0, "A != 0")
    if h.is_sym():
        ctx().twiddle_base = n
        from symx.array import SymArray
        x = SymArray.make([A * conj(tw(h, n, k * t)) for t in range(N)], cplx=True)
    else:
        x = np.array([A * np.exp(2j * np.pi * k * t / n) for t in range(N)])
    if est == 'periodogram':
        p = S.Periodogram(x, window='hamming', NFFT=n)
    else:
        p = S.pcorrelogram(x, lag=N - 1, window='hamming', NFFT=n, scale_by_freq=False)
    psd = p.psd
    fr = p.frequencies()
    if len(psd) != n:
        h.fail("len", "len %d" % len(psd))
        return
    kk = k % n
    for j in range(n):
        if j != kk:
            h.claim_le("psd[%d] <= psd[%d] (tone bin)" % (j, kk), psd[j].real, psd[kk].real)
    # sampling is the concrete default 1.0 here (the symbolic-rate axis identity is clause group 1)
    h.claim_true("reported frequency of the peak entry", bool(abs(float(fr[kk]) * n - kk) <= 1e-9))


def case_real_sinusoid(h, n, k):
    """a*cos + b*sin on bin k, N = NFFT, rectangular window: the periodogram peaks at |f| = k*sampling/NFFT"""
    S = sp()
    a = h.real('a')
    b = h.real('b')
    h.assume((a != 0) | (b != 0), "non-zero amplitude")
    if h.is_sym():
        ctx().twiddle_base = n
        from symx.array import SymArray
        vals = []
        for t in range(n):
            e = conj(tw(h, n, k * t))
            vals.append(a * e.real + b * e.imag)
        x = SymArray.make(vals)
    else:
        x = np.array([a * np.cos(2 * np.pi * k * t / n) + b * np.sin(2 * np.pi * k * t / n) for t in range(n)])
    p = S.Periodogram(x, window='rectangular', NFFT=n)
    psd = p.psd
    L = zoo.expected_len(n, False)
    if len(psd) != L:
        h.fail("len", "len %d" % len(psd))
        return
    for j in range(L):
        if j != k:
            h.claim_le("psd[%d] <= psd[%d]" % (j, k), psd[j].real, psd[k].real)


def cases(tier, seed):
    q = tier == 'quick'
    out = []
    T = dict(timeout=120 if q else 600, max_paths=16, feas_timeout=3, wall=500 if q else 2400)
    cheap = ('Periodogram', 'pcorrelogram', 'MultiTapering', 'pcovar', 'pmodcovar', 'pmusic', 'pev')
    for name in zoo.ALL:
        for cplx in (False, True):
            if cplx and name in ('parma', 'pma'):
                continue
            for nfft in ((None, 'nextpow2', 4, 5) if q else (None, 'nextpow2', 4, 5, 6, 7, 8)):
                N = zoo.DEFAULT_N[name]
                n = expected_nfft(nfft, N)
                if cplx and q and name not in cheap and nfft not in (None, 4):
                    continue
                if name == 'pminvar' and n < 4:
                    continue
                if name == 'pcorrelogram' and n < 3:
                    continue
                if name in ('pmusic', 'pev') and n < 3:
                    continue
                if name == 'parma' and n <= 3:
                    continue
                if name in ('Periodogram', 'MultiTapering') and n < N:
                    continue
                out.append(Case("shape:%s:%s:NFFT=%s" % (name, 'cx' if cplx else 're', nfft), case_shape,
                                dict(name=name, cplx=cplx, nfft=nfft), **T))
    for cplx in (False, True):
        for n in ((4, 5) if q else (4, 5, 6, 8)):
            out.append(Case("axis:pcorrelogram:%s:N=3:lag=1:NFFT=%d" % ('cx' if cplx else 're', n), case_correlogram_axis,
                            dict(cplx=cplx, N=3, lag=1, n=n), **T))
            if not q and n >= 5:
                out.append(Case("axis:pcorrelogram:%s:N=4:lag=2:NFFT=%d" % ('cx' if cplx else 're', n), case_correlogram_axis,
                                dict(cplx=cplx, N=4, lag=2, n=n), **T))
            out.append(Case("axis:pminvar:%s:N=4:m=2:NFFT=%d" % ('cx' if cplx else 're', n), case_minvar_axis,
                            dict(cplx=cplx, N=4, m=2, n=n), **T))
    for est in ('periodogram', 'correlogram'):
        for (N, n) in ([(3, 4), (4, 4), (3, 5)] if q else [(3, 4), (4, 4), (3, 5), (4, 6), (4, 8), (5, 5)]):
            if est == 'correlogram' and n < 2 * (N - 1) + 1:
                continue
            for k in range(n):
                out.append(Case("tone:%s:N=%d:NFFT=%d:k=%d" % (est, N, n, k), case_tone, dict(est=est, N=N, n=n, k=k), **T))
    for n in ((4, 5, 6) if q else (4, 5, 6, 7, 8)):
        for k in range(1, (n + 1) // 2):
            if 2 * k == n:
                continue
            out.append(Case("real-sinusoid:periodogram:NFFT=%d:k=%d" % (n, k), case_real_sinusoid, dict(n=n, k=k), **T))
    return out
