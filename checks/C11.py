"""C11 - linear-prediction representations convert losslessly into each other."""
import math

import numpy as np

from symx.run import Case
from symx.number import SymBool, Sym, ctx
from .common import sp, conj, abs2, stepup

ID = "C11"
EXPLANATION = ("ac2poly, ac2rc, poly2ac, poly2rc, rc2poly, rc2ac (through the real LEVINSON, rlevinson, levdown, levup) "
               "are executed on symbolic reflection coefficients / zero-lag (|k|<1, r0>0) and on symbolic positive-definite "
               "autocorrelations; z3 decides the round trips and commuting squares as identities between rational "
               "functions. rc2lar/lar2rc and rc2is/is2rc are executed with tanh/arctanh/sin/arcsin as uninterpreted "
               "functions constrained only by their inverse-pair axioms, pi symbolic: that decides the plumbing (signs, factors 2 and pi/2, "
               "domain checks) for every argument. lsf2poly is executed on symbolic increasing frequencies in (0, pi) (exp(j w) = cos w + j sin w on "
               "uninterpreted cos / sin with cos^2 + sin^2 = 1) and compared with the DEFINITION of line spectral frequencies: the sum and "
               "difference filters of the returned polynomial have exactly the prescribed unit-circle roots (interlaced sets, trivial roots at z = -1 / +1). The algebraic half of poly2lsf is decided too: the polynomials "
               "handed to numpy.roots are the difference / sum filters of A with exactly their trivial roots divided out (numpy.roots replaced by a recorder, "
               "scipy.signal.deconvolve by exact long division).")
BOUNDS = {
    "quick": "order <= 4 real, <= 3 complex for the rational conversions; vector length <= 2 for lar / inverse-sine; lsf2poly and the poly2lsf filters: orders 1..16",
    "thorough": "order <= 6 real, <= 4 complex from reflection coefficients (<= 4 / 3 for the round trips that start from an autocorrelation); length <= 3 for lar / inverse-sine; lsf2poly and the poly2lsf filters: orders 1..16",
}
ASSUMPTIONS = ["floats modelled as exact reals", "domain: |k_i| < 1, r0 > 0 (or LEVINSON's own positive-definiteness path condition)",
               "tanh, arctanh, sin, arcsin: uninterpreted, with tanh(arctanh y)=y, arctanh(tanh y)=y, sin(arcsin y)=y (|y|<=1), "
               "arcsin(sin y)=y (|y|<=pi/2) instantiated on the applications that occur; pi symbolic in (3.14159265, 3.14159266)"]
OUTSIDE = ["the root extraction of poly2lsf (and therefore the round trip poly -> lsf -> poly and 'frequencies strictly increasing'): poly2lsf relies on the ORDER in which LAPACK's eigenvalue routine (numpy.roots) returns conjugate pairs "
           "(rP[1::2]); no documented contract fixes it, so modelling it would be modelling LAPACK - not claimed; the lsf -> poly direction is decided against the definition",
           "orders above the bounds (property text: up to 16)"]
BUDGET = {"quick": 900, "thorough": 3400}


def sym_arr(h, vals, cplx):
    if h.is_sym():
        from symx.array import SymArray
        return SymArray.make(list(vals), cplx=cplx)
    return np.array(list(vals), dtype=complex if cplx else float)


def inputs_rc(h, p, cplx):
    ks = [(h.cplx("k%d" % i) if cplx else h.real("k%d" % i)) for i in range(p)]
    for k in ks:
        h.assume(abs2(k) < 1, "|k|<1")
    r0 = h.real('r0', positive=True)
    return ks, r0


def case_rc_roundtrips(h, p, cplx):
    """start from reflection coefficients + zero lag"""
    S = sp()
    ks, r0 = inputs_rc(h, p, cplx)
    k = sym_arr(h, ks, cplx)
    a, efinal = S.rc2poly(k, r0)
    su = stepup(ks)
    if len(a) != p + 1:
        h.fail("rc2poly:len", "len %d" % len(a))
        return
    h.claim_eq("rc2poly:a0=1", a[0], 1)
    for i in range(p):
        h.claim_eq("rc2poly:a[%d]=stepup" % (i + 1), a[i + 1], su[i])
    prod = r0
    for i in range(p):
        prod = prod * (1 - abs2(ks[i]))
    h.claim_eq("rc2poly:efinal=r0*prod(1-|k|^2)", efinal, prod)
    # poly -> rc
    kr = S.poly2rc(a, efinal)
    if len(kr) != p:
        h.fail("poly2rc:len", "len %d" % len(kr))
    else:
        for i in range(p):
            h.claim_eq("poly2rc(rc2poly(k))[%d]=k" % i, kr[i], ks[i])
    # rc -> ac -> rc / poly
    R = S.rc2ac(k, r0)
    if len(R) != p + 1:
        h.fail("rc2ac:len", "len %d" % len(R))
        return
    h.claim_eq("rc2ac:R0=r0", R[0], r0)
    R2 = S.poly2ac(a, efinal)
    for i in range(p + 1):
        h.claim_eq("poly2ac(rc2poly)[%d]=rc2ac[%d]" % (i, i), R2[i], R[i])
    # the autocorrelation satisfies the normal equations of (a, efinal)
    for i in range(p + 1):
        acc = 0
        for j in range(p + 1):
            rij = R[i - j] if i >= j else conj(R[j - i])
            acc = acc + rij * a[j]
        h.claim_eq("rc2ac:normal-eq-row%d" % i, acc, efinal if i == 0 else 0)


def case_ac_roundtrips(h, p, cplx):
    """start from the autocorrelation produced by (k, r0) and go back through LEVINSON"""
    S = sp()
    ks, r0 = inputs_rc(h, p, cplx)
    k = sym_arr(h, ks, cplx)
    R = S.rc2ac(k, r0)
    Rr = sym_arr(h, [R[0].real * (1 + 0j if cplx else 1)] + [R[i] for i in range(1, p + 1)], cplx)
    try:
        a, e = S.ac2poly(Rr)
        k2, r0b = S.ac2rc(Rr)
    except ValueError:
        h.fail("LEVINSON raised on an autocorrelation built from |k|<1, r0>0")
        return
    su = stepup(ks)
    for i in range(p):
        h.claim_eq("ac2rc(rc2ac(k))[%d]=k" % i, k2[i], ks[i])
        h.claim_eq("ac2poly(rc2ac(k))[%d]=rc2poly(k)" % (i + 1), a[i + 1], su[i])
    h.claim_eq("ac2rc:r0", r0b, r0)
    prod = r0
    for i in range(p):
        prod = prod * (1 - abs2(ks[i]))
    h.claim_eq("ac2poly:e=rc2poly:efinal", e, prod)
    R3 = S.poly2ac(a, e)
    for i in range(p + 1):
        h.claim_eq("poly2ac(ac2poly(R))[%d]=R" % i, R3[i], Rr[i])
    k3 = S.poly2rc(a, e)
    for i in range(p):
        h.claim_eq("poly2rc(ac2poly(R))[%d]=ac2rc(R)" % i, k3[i], k2[i])


# ---------------------------------------------------------------------------
def add_inverse_axioms(h):
    """instantiate the inverse-pair axioms on the uninterpreted applications recorded so far"""
    if not h.is_sym():
        return
    c = ctx()
    apps = {}
    for (fn, _key), (val, arg) in c.uf_apps.items():
        apps.setdefault(fn, []).append((val, arg))
    pi = getattr(c, '_pi', None)
    for v_t, a_t in apps.get('tanh', []):
        for v_a, a_a in apps.get('arctanh', []):
            # tanh(arctanh(y)) = y
            c.axioms.append(SymBool.any([(a_t != v_a), (v_t == a_a)]))
    for v_a, a_a in apps.get('arctanh', []):
        for v_t, a_t in apps.get('tanh', []):
            # arctanh(tanh(y)) = y
            c.axioms.append(SymBool.any([(a_a != v_t), (v_a == a_t)]))
    for v_s, a_s in apps.get('sin', []):
        for v_a, a_a in apps.get('arcsin', []):
            # sin(arcsin(y)) = y for |y| <= 1
            c.axioms.append(SymBool.any([(a_s != v_a), (a_a * a_a > 1), (v_s == a_a)]))
    if pi is not None:
        for v_a, a_a in apps.get('arcsin', []):
            for v_s, a_s in apps.get('sin', []):
                # arcsin(sin(y)) = y for |y| <= pi/2
                c.axioms.append(SymBool.any([(a_a != v_s), (4 * a_s * a_s > pi * pi), (v_a == a_s)]))
            # range of arcsin
            c.axioms.append(SymBool.cmp('<=', (4 * v_a * v_a - pi * pi).re))


def case_lar(h, n, direction):
    S = sp()
    if h.is_sym():
        ctx().symbolic_pi = True
    if direction == 'rc->lar->rc':
        k = h.real_vec('k', n)
        try:
            g = S.rc2lar(k)
        except ValueError:
            # raised exactly when some |k_i| >= 1
            bad = False
            for i in range(n):
                bad = (abs2(k[i]) >= 1) | bad
            h.claim_true("raises only outside the domain", bad)
            return
        for i in range(n):
            h.claim_lt("no raise => |k%d|<1" % i, abs2(k[i]), 1)
        back = S.lar2rc(g)
        add_inverse_axioms(h)
        for i in range(n):
            h.claim_eq("lar2rc(rc2lar(k))[%d]=k" % i, back[i], k[i])
    else:
        g = h.real_vec('g', n)
        k = S.lar2rc(g)
        if h.is_sym():
            for (fn, _), (val, arg) in list(ctx().uf_apps.items()):
                if fn == 'tanh':
                    ctx().axioms.append(SymBool.cmp('<', (val * val - 1).re))   # |tanh| < 1 strictly
        try:
            back = S.rc2lar(k)
        except ValueError:
            h.fail("rc2lar rejected lar2rc(g)")
            return
        add_inverse_axioms(h)
        for i in range(n):
            h.claim_eq("rc2lar(lar2rc(g))[%d]=g" % i, back[i], g[i])


def case_is(h, n, direction):
    S = sp()
    if h.is_sym():
        ctx().symbolic_pi = True
    if direction == 'rc->is->rc':
        k = h.real_vec('k', n)
        try:
            s = S.rc2is(k)
        except ValueError:
            bad = False
            for i in range(n):
                bad = (abs2(k[i]) >= 1) | bad
            h.claim_true("raises only outside the domain", bad)
            return
        for i in range(n):
            h.claim_lt("no raise => |k%d|<1" % i, abs2(k[i]), 1)
        back = S.is2rc(s)
        add_inverse_axioms(h)
        for i in range(n):
            h.claim_eq("is2rc(rc2is(k))[%d]=k" % i, back[i], k[i])
    else:
        s = h.real_vec('s', n)
        for i in range(n):
            h.assume(abs2(s[i]) < 1, "|s|<1")
        k = S.is2rc(s)
        if h.is_sym():
            # |sin(y)| < 1 for |y| < pi/2 (strictly inside the domain)
            for (fn, _), (val, arg) in list(ctx().uf_apps.items()):
                if fn == 'sin':
                    ctx().axioms.append(SymBool.cmp('<', (val * val - 1).re))
        try:
            back = S.rc2is(k)
        except ValueError:
            h.fail("rc2is rejected is2rc(s)")
            return
        add_inverse_axioms(h)
        for i in range(n):
            h.claim_eq("rc2is(is2rc(s))[%d]=s" % i, back[i], s[i])


def _pmul(a, b):
    out = [0] * (len(a) + len(b) - 1)
    for i, u in enumerate(a):
        for j, v in enumerate(b):
            out[i + j] = out[i + j] + u * v
    return out


def case_lsf2poly(h, p):
    """lsf2poly against the definition of line spectral frequencies: with A_ext = [a, 0], the sum filter
    A_ext + reversed(A_ext) has exactly the unit-circle roots at the even-indexed frequencies (+ z=-1 for even order)
    and the difference filter A_ext - reversed(A_ext) those at the odd-indexed ones (+ z=1, and z=-1 for odd order)"""
    S = sp()
    w = h.real_vec('w', p)
    if h.is_sym():
        ctx().symbolic_pi = True
        from symx.loader import symbolic_pi
        from symx import stubs_math
        from symx.number import as_sym
        pi = symbolic_pi()
        cosw = [stubs_math.apply('cos', as_sym(w[i])) for i in range(p)]
    else:
        pi = math.pi
        cosw = [math.cos(w[i]) for i in range(p)]
    h.assume(w[0] > 0, "0 < w0")
    for i in range(1, p):
        h.assume(w[i] > w[i - 1], "increasing")
    h.assume(w[p - 1] < pi, "w < pi")
    try:
        a = S.lsf2poly(w)
    except ValueError:
        h.fail("lsf2poly rejected frequencies inside (0, pi)")
        return
    if len(a) != p + 1:
        h.fail("len", "len %d expected %d" % (len(a), p + 1))
        return
    h.claim_eq("a0=1", a[0], 1)
    ssum, sdif = [1], [1]
    for i in range(p):
        fac = [1, -2 * cosw[i], 1]
        if i % 2 == 0:
            ssum = _pmul(ssum, fac)
        else:
            sdif = _pmul(sdif, fac)
    if p % 2:
        sdif = _pmul(sdif, [1, 0, -1])
    else:
        ssum = _pmul(ssum, [1, 1])
        sdif = _pmul(sdif, [1, -1])
    ext = [a[i] for i in range(p + 1)] + [0]
    for j in range(p + 2):
        h.claim_eq("sum-filter[%d]" % j, ext[j] + ext[p + 1 - j], ssum[j])
        h.claim_eq("difference-filter[%d]" % j, ext[j] - ext[p + 1 - j], sdif[j])
    for j in range(p + 1):
        h.claim_real("a[%d] real" % j, a[j])


def _deconv_exact(num, den):
    """polynomial long division (what scipy.signal.deconvolve computes): quotient, remainder"""
    num = [v for v in num]
    den = [v for v in den]
    nq = len(num) - len(den) + 1
    if nq <= 0:
        return [], num
    rem = list(num)
    quo = []
    for i in range(nq):
        c = rem[i] / den[0]
        quo.append(c)
        for j, d in enumerate(den):
            rem[i + j] = rem[i + j] - c * d
    return quo, rem


def case_poly2lsf_filters(h, p):
    """the algebraic half of poly2lsf: the two polynomials whose roots it extracts are the difference / sum filters of A with
    their trivial roots (z=1; z=-1; both for odd order) divided out exactly. numpy.roots itself (LAPACK) is replaced by a
    recorder, so nothing is claimed about the angles it leads to."""
    import sys as _sys
    S = sp()
    LP = _sys.modules['spectrum.linear_prediction']
    a = [1] + [h.real('a%d' % i) for i in range(1, p + 1)]
    seen = []
    if h.is_sym():
        from symx.array import SymArray, to_symarray
        arr = SymArray.make(a)

        def roots_rec(c):
            seen.append([v for v in to_symarray(c)])
            return np.exp(1j * np.linspace(0.3, 2.8, max(len(c) - 1, 0))) * 0.5

        def deconv(num, den):
            qv, rv = _deconv_exact(list(to_symarray(num)), list(den))
            return SymArray.make(qv), SymArray.make(rv)
        ov = LP.numpy.__dict__['_ov']
        saved = (ov.get('roots'), LP.deconvolve)
        ov['roots'] = roots_rec
        LP.deconvolve = deconv
        try:
            LP.poly2lsf(arr)
        finally:
            LP.deconvolve = saved[1]
            if saved[0] is None:
                ov.pop('roots', None)
            else:
                ov['roots'] = saved[0]
    else:
        import numpy as _np
        real_roots = _np.roots

        def roots_rec(c):
            seen.append([v for v in _np.asarray(c)])
            return real_roots(c)
        _np.roots = roots_rec
        try:
            try:
                LP.poly2lsf(np.array(a, dtype=float))
            except Exception:
                pass        # unstable polynomial rejected etc.: the recorded arguments are what is examined
        finally:
            _np.roots = real_roots
    if len(seen) < 3:
        if h.is_sym():
            h.fail("roots calls", "numpy.roots called %d times, expected 3 (stability test, P, Q)" % len(seen))
        return
    P, Q = seen[1], seen[2]
    ext = a + [0]
    rev = ext[::-1]
    dif = [ext[i] - rev[i] for i in range(p + 2)]
    sm = [ext[i] + rev[i] for i in range(p + 2)]
    if p % 2:
        wantP, wantQ = _pmul(P, [1, 0, -1]), list(Q)
    else:
        wantP, wantQ = _pmul(P, [1, -1]), _pmul(Q, [1, 1])
    if len(wantP) != p + 2 or len(wantQ) != p + 2:
        h.fail("filter lengths", "P*trivial has %d coefficients, Q*trivial %d, expected %d" % (len(wantP), len(wantQ), p + 2))
        return
    for i in range(p + 2):
        h.claim_eq("difference filter[%d] = P * trivial roots" % i, wantP[i], dif[i])
        h.claim_eq("sum filter[%d] = Q * trivial roots" % i, wantQ[i], sm[i])


def cases(tier, seed):
    q = tier == 'quick'
    out = []
    for p in range(1, 17):
        out.append(Case("poly2lsf:filters:p=%d" % p, case_poly2lsf_filters, dict(p=p), timeout=60 if q else 300, max_paths=8,
                        feas_timeout=3, max_decisions=16))
    for p in range(1, 17):
        out.append(Case("lsf2poly:definition:p=%d" % p, case_lsf2poly, dict(p=p), timeout=60 if q else 300, max_paths=32,
                        feas_timeout=5, max_decisions=40))
    for cplx, pmax in ((False, 4 if q else 6), (True, 3 if q else 4)):
        tag = 'cx' if cplx else 're'
        for p in range(1, pmax + 1):
            out.append(Case("rc-roundtrips:%s:p=%d" % (tag, p), case_rc_roundtrips, dict(p=p, cplx=cplx),
                            timeout=120 if q else 600, max_paths=16, feas_timeout=5, wall=500 if q else 2400))
            if p > (3 if cplx else 4):
                continue        # the path on which LEVINSON would raise must be refuted by the solver: no verdict within budget at p = 5 (real) / 4 (complex)
            out.append(Case("ac-roundtrips:%s:p=%d" % (tag, p), case_ac_roundtrips, dict(p=p, cplx=cplx),
                            timeout=120 if q else 600, max_paths=16, feas_timeout=5, wall=500 if q else 2400))
    for n in ((1, 2) if q else (1, 2, 3)):
        for d in ('rc->lar->rc', 'lar->rc->lar'):
            out.append(Case("lar:%s:n=%d" % (d, n), case_lar, dict(n=n, direction=d), timeout=60 if q else 300,
                            max_paths=32, feas_timeout=5))
        for d in ('rc->is->rc', 'is->rc->is'):
            out.append(Case("inverse-sine:%s:n=%d" % (d, n), case_is, dict(n=n, direction=d), timeout=60 if q else 300,
                            max_paths=32, feas_timeout=5))
    return out
