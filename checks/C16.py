"""C16 - minimum-variance spectrum equals T / (e^H R^-1 e)."""
import numpy as np

from symx.run import Case
from symx.number import SymBool, Sym, ctx
from .common import sp, conj, abs2, stepup

ID = "C16"
EXPLANATION = ("minvar is executed with its Burg fit replaced by an ARBITRARY valid Burg output (symbolic reflection "
               "coefficients |k_i|<1, A = step-up(k), P>0), which isolates the Musicus psi computation. In the harness R is "
               "rebuilt from (k, P) by the inverse Levinson recursion and an explicit inverse G by the Gohberg-Semencul formula; "
               "z3 decides (i) R*G = I, so no matrix-inversion theorem is trusted, (ii) PSD[k] * Re(e(f_k)^H G e(f_k)) = sampling with Im = 0 "
               "at every bin (exact twiddles, symbolic sampling), (iii) positivity of the quadratic form through G = (L1 L1^H - L2 L2^H)/P "
               "and a lemma, and that the AR vector (leading 1) and reflection coefficients are passed through. The un-stubbed "
               "function is run for m=2 on symbolic data, and for NFFT < 2m the identity is shown to FAIL (witness twin).")
BOUNDS = {
    "quick": "stubbed Burg: m in 2..4 complex and real, NFFT in {2m-1, 2m, 2m+1, 8}; R*G=I for m<=4 complex; un-stubbed m=2, N=4 real",
    "thorough": "m in 2..6, NFFT in 2m-1..2m+4; R*G=I m<=5 complex, 6 real; un-stubbed m=2 N=4,5 real and complex; m=3 N=5 real",
}
ASSUMPTIONS = ["floats modelled as exact reals", "fft = DFT definition", "stubbed runs: spectrum.minvar.arburg returns an arbitrary "
               "valid Burg triple (the Burg fit itself is C13's subject)", "sampling > 0"]
OUTSIDE = ["m > 4, NFFT > 9", "conditioning of R"]
BUDGET = {"quick": 900, "thorough": 3400}


def toeplitz_from_rc(ks, P, m):
    """autocorrelation lags r[0..m-1] implied by reflection coefficients ks (order m-1) and final error P"""
    prod = 1
    for k in ks:
        prod = prod * (1 - abs2(k))
    r = [P / prod]
    for j in range(1, m):
        aj = stepup(ks[:j])
        acc = 0
        for i in range(1, j + 1):
            acc = acc + aj[i - 1] * r[j - i]
        r.append(-acc)
    return r


def gohberg_semencul(a, P, m):
    """G = (L1 L1^H - L2 L2^H)/P, a = [1, a1..a_{m-1}]"""
    c2 = [0] + [conj(a[m - 1 - i]) for i in range(m - 1)]

    def L(c, i, j):
        return c[i - j] if i >= j else 0
    G = [[0] * m for _ in range(m)]
    for i in range(m):
        for j in range(m):
            acc = 0
            for t in range(m):
                acc = acc + L(a, i, t) * conj(L(a, j, t)) - L(c2, i, t) * conj(L(c2, j, t))
            G[i][j] = acc / P
    return G


def quadform(h, G, m, n, k):
    """e(f_k)^H G e(f_k), e_i = exp(+2 pi i k i / n)"""
    if h.is_sym():
        from symx import stubs
        tw = stubs.twiddles(n)
        acc = 0
        for i in range(m):
            for j in range(m):
                acc = acc + G[i][j] * tw(k * (i - j))
        return acc
    acc = 0j
    for i in range(m):
        for j in range(m):
            acc += complex(G[i][j]) * np.exp(2j * np.pi * k * (j - i) / n)
    return acc


def burg_inputs(h, m, cplx):
    """symbolic mode: arbitrary valid Burg output, installed in place of spectrum.minvar.arburg.
    replay mode: real data, real arburg."""
    S = sp()
    if h.is_sym():
        ks = [(h.cplx("k%d" % i) if cplx else h.real("k%d" % i)) for i in range(m - 1)]
        for k in ks:
            h.assume(abs2(k) < 1, "|k|<1")
        P = h.real('P', positive=True)
        from symx.array import SymArray
        A = SymArray.make(stepup(ks), cplx=True)
        K = SymArray.make(ks, cplx=True)
        x = SymArray.make([1.0] * (2 * m))        # the shortest admissible record (m <= N/2)
        return x, ks, P, (A, P, K)
    x = h.vec('x', 2 * m, cplx)
    A, P, K = S.arburg(x, m - 1)
    return x, [K[i] for i in range(m - 1)], P, None


def case_minvar_stubbed(h, m, n, cplx, expect_fail=False):
    S = sp()
    x, ks, P, stub = burg_inputs(h, m, cplx)
    fs = h.real('fs', positive=True)
    import sys as _sys
    MV = _sys.modules["spectrum.minvar"]
    orig = MV.arburg
    seen = {}
    if stub is not None:
        def fake_arburg(X, order, criteria=None):
            seen['order'] = order
            seen['len'] = len(X)
            return stub
        MV.arburg = fake_arburg
    try:
        psd, A_ret, k_ret = S.minvar(x, m, sampling=fs, NFFT=n)
    finally:
        MV.arburg = orig
    if stub is not None and (seen.get('order') != m - 1 or seen.get('len') != len(x)):
        h.fail("Burg call", "minvar(x, m=%d) on %d samples asked arburg for order %r on %r samples (expected order %d on all samples)" % (
            m, len(x), seen.get('order'), seen.get('len'), m - 1))
        return
    a = [1] + stepup(ks)
    if len(A_ret) != m or len(k_ret) != m - 1 or len(psd) != n:
        h.fail("len", "len(A)=%d len(k)=%d len(psd)=%d" % (len(A_ret), len(k_ret), len(psd)))
        return
    h.claim_eq("A[0]=1", A_ret[0], 1)
    for i in range(1, m):
        h.claim_eq("A[%d]=burg" % i, A_ret[i], a[i])
        h.claim_eq("k[%d]=burg" % (i - 1), k_ret[i - 1], ks[i - 1])
    G = gohberg_semencul(a, P, m)
    for k in range(n):
        q = quadform(h, G, m, n, k)
        h.claim_eq("bin%d: PSD*Re(e^H G e)=sampling" % k, psd[k] * q.real, fs)
        h.claim_eq("bin%d: Im(e^H G e)=0" % k, q.imag, 0)
        h.claim_real("bin%d: PSD real" % k, psd[k])


def case_rg_identity(h, m, cplx):
    """R * G = I for R rebuilt from (k, P) and G from the Gohberg-Semencul formula (harness-only objects)"""
    ks = [(h.cplx("k%d" % i) if cplx else h.real("k%d" % i)) for i in range(m - 1)]
    for k in ks:
        h.assume(abs2(k) < 1, "|k|<1")
    P = h.real('P', positive=True)
    a = [1] + stepup(ks)
    r = toeplitz_from_rc(ks, P, m)
    G = gohberg_semencul(a, P, m)
    for i in range(m):
        for j in range(m):
            acc = 0
            for t in range(m):
                rit = r[i - t] if i >= t else conj(r[t - i])
                acc = acc + rit * G[t][j]
            h.claim_eq("RG[%d,%d]" % (i, j), acc, 1 if i == j else 0)
    # R is the Toeplitz matrix of the model: normal equations
    for i in range(m):
        acc = 0
        for j in range(m):
            rij = r[i - j] if i >= j else conj(r[j - i])
            acc = acc + rij * a[j]
        h.claim_eq("R a = P e0 [%d]" % i, acc, P if i == 0 else 0)


def case_positive_lemma(h, m, cplx):
    """z^H G z > 0 for z != 0 when |k_i|<1, P>0 (G from the Gohberg-Semencul formula): decided directly for small m"""
    ks = [(h.cplx("k%d" % i) if cplx else h.real("k%d" % i)) for i in range(m - 1)]
    for k in ks:
        h.assume(abs2(k) < 1, "|k|<1")
    P = h.real('P', positive=True)
    a = [1] + stepup(ks)
    G = gohberg_semencul(a, P, m)
    z = h.vec('z', m, cplx)
    h.assume_nonzero_vec(z)
    q = 0
    for i in range(m):
        for j in range(m):
            q = q + conj(z[i]) * G[i][j] * z[j]
    h.claim_real("z^H G z real", q)
    h.claim_lt("z^H G z > 0", 0, q.real)


def case_minvar_real(h, N, m, n, cplx):
    """un-stubbed: the Burg model of order m-1 comes from the data"""
    S = sp()
    x = h.vec('x', N, cplx)
    fs = h.real('fs', positive=True)
    try:
        A, P, K = S.arburg(x, m - 1)
    except ValueError:
        return          # degenerate data rejected by Burg itself
    try:
        psd, A_ret, k_ret = S.minvar(x, m, sampling=fs, NFFT=n)
    except (ValueError, AssertionError) as e:
        h.fail("minvar raised", "minvar(x, %d) raised %s although arburg(x, %d) succeeds on the same data" % (m, type(e).__name__, m - 1))
        return
    if len(A_ret) != m or len(k_ret) != m - 1 or len(psd) != n:
        h.fail("len", "lens %d %d %d" % (len(A_ret), len(k_ret), len(psd)))
        return
    h.claim_eq("A[0]=1", A_ret[0], 1)
    for i in range(1, m):
        h.claim_eq("A[%d]=arburg(x,m-1)" % i, A_ret[i], A[i - 1])
        h.claim_eq("k[%d]=arburg(x,m-1)" % (i - 1), k_ret[i - 1], K[i - 1])
    a = [1] + [A[i] for i in range(m - 1)]
    G = gohberg_semencul(a, P, m)
    for k in range(n):
        q = quadform(h, G, m, n, k)
        h.claim_eq("bin%d: PSD*Re(e^H G e)=sampling" % k, psd[k] * q.real, fs)


def cases(tier, seed):
    q = tier == 'quick'
    out = []
    for m in ((2, 3, 4) if q else (2, 3, 4, 5, 6)):
        for cplx in (True, False):
            ns = sorted(set([2 * m - 1, 2 * m, 2 * m + 1, 8])) if q else list(range(2 * m - 1, 2 * m + 5))
            for n in ns:
                if n < 2 * m - 1:
                    continue
                out.append(Case("minvar:stubbed-burg:%s:m=%d:NFFT=%d" % ('cx' if cplx else 're', m, n), case_minvar_stubbed,
                                dict(m=m, n=n, cplx=cplx), timeout=120 if q else 600, wall=600 if q else 2400))
        # witness twin: with NFFT <= 2m-2 the wrap-around of psi breaks the identity - the harness must see it
        if m <= 4:      # the witness is a vacuity guard, not a claim: the small sizes suffice (m = 6 needs more than the 60 s allowed)
            out.append(Case("witness:minvar:NFFT=2m-2:m=%d" % m, case_minvar_stubbed, dict(m=m, n=2 * m - 2, cplx=True),
                            timeout=60, expect_sat=True))
    for m, cplx in ([(2, True), (3, True), (4, True), (4, False)] if q else [(2, True), (3, True), (4, True), (5, True), (5, False), (6, False)]):
        out.append(Case("RG=I:%s:m=%d" % ('cx' if cplx else 're', m), case_rg_identity, dict(m=m, cplx=cplx),
                        timeout=120 if q else 900))
    for m, cplx in ([(2, False), (2, True)] if q else [(2, False), (2, True), (3, False)]):
        out.append(Case("positive-lemma:%s:m=%d" % ('cx' if cplx else 're', m), case_positive_lemma, dict(m=m, cplx=cplx),
                        lemma=True, timeout=120 if q else 900))
    for N, m, n, cplx in ([(4, 2, 4, False), (4, 2, 5, False)] if q else
                          [(4, 2, 4, False), (4, 2, 5, False), (5, 2, 4, False), (4, 2, 4, True), (5, 3, 6, False)]):
        out.append(Case("minvar:from-data:%s:N=%d:m=%d:NFFT=%d" % ('cx' if cplx else 're', N, m, n), case_minvar_real,
                        dict(N=N, m=m, n=n, cplx=cplx), timeout=120 if q else 600, max_paths=8, feas_timeout=5,
                        wall=600 if q else 2400))
    from .common import reuse_cases, Call
    out += reuse_cases([("minvar(m=2,NFFT=4)", Call('minvar', 2, NFFT=4), 4, True), ("minvar(m=2,NFFT=5)", Call('minvar', 2, NFFT=5), 4, False)], q)
    return out
