"""C13 - Burg models are stable, nested and minimise forward+backward error."""
import numpy as np

from symx.run import Case
from symx.number import SymBool, Sym
from .common import sp, conj, abs2, stepup, msq

ID = "C13"
EXPLANATION = ("arburg (and _arburg2) are executed on symbolic data vectors, every path through the degenerate-error test "
               "explored. An independent lattice filter written in the harness is driven by the RETURNED reflection "
               "coefficients; z3 decides that each k_i is the stationary point of the summed forward+backward "
               "prediction-error energy of stage i (k_i * sum(|ef|^2+|eb|^2) = -2 sum ef conj(eb)), that the returned AR "
               "vector is the step-up of the reflection coefficients, rho = mean|x|^2 prod(1-|k_i|^2), nesting, "
               "|k_i| <= 1 (directly for the first stage and through a Cauchy-Schwarz lemma over fresh error vectors), agreement with _arburg2, "
               "and that with an order-selection criterion (its decision replaced by an arbitrary boolean) the result is the Burg model of the returned order.")
BOUNDS = {
    "quick": "real N in 3..5, complex N=3, order <= 2; |k1|<=1 by CAD for N=3 (real), lemma for error vectors of length <= 3; criteria: order 2, N=4 real",
    "thorough": "real N in 3..6, complex N in 3..5, order <= 2, order 3 for N=5 real (decides in ~20 min); lemma length <= 4",
}
ASSUMPTIONS = ["floats modelled as exact reals", "Criteria.__call__ replaced by an arbitrary boolean (both outcomes explored)",
               "non-degenerate data: paths on which arburg itself raises ValueError (non-positive error) are its documented rejection"]
OUTSIDE = ["order >= 3 in general (expression swell)", "the numerical content of criteria.py (logarithms of symbolic values; their scale behaviour is decided in C03)",
           "N > 6"]
BUDGET = {"quick": 900, "thorough": 3400}


def lattice(x, ks):
    """forward/backward errors of every stage, driven by the given reflection coefficients"""
    N = len(x)
    ef = [x[n] for n in range(N)]
    eb = [x[n] for n in range(N)]
    stages = [(list(ef), list(eb))]
    for i, k in enumerate(ks):
        nf = list(ef)
        nb = list(eb)
        for n in range(i + 1, N):
            nf[n] = ef[n] + k * eb[n - 1]
            nb[n] = eb[n - 1] + conj(k) * ef[n]
        ef, eb = nf, nb
        stages.append((list(ef), list(eb)))
    return stages


def case_burg(h, N, p, cplx):
    S = sp()
    x = h.vec('x', N, cplx)
    try:
        a, rho, k = S.arburg(x, p)
    except ValueError:
        return
    if len(a) != p or len(k) != p:
        h.fail("len", "len(a)=%d len(k)=%d" % (len(a), len(k)))
        return
    ks = [k[i] for i in range(p)]
    st = lattice(x, ks)
    for i in range(p):
        ef, eb = st[i]
        num = 0
        den = 0
        for n in range(i + 1, N):
            num = num + ef[n] * conj(eb[n - 1])
            den = den + abs2(ef[n]) + abs2(eb[n - 1])
        h.claim_eq("stage%d:k*energy=-2*cross" % (i + 1), ks[i] * den, -2 * num)
    su = stepup(ks)
    for i in range(p):
        h.claim_eq("a=stepup(k)[%d]" % i, a[i], su[i])
    prod = msq(x)
    for i in range(p):
        prod = prod * (1 - abs2(ks[i]))
    h.claim_eq("rho=mean|x|^2*prod(1-|k|^2)", rho, prod)
    h.claim_real("rho real", rho)
    # nesting
    for q in range(1, p):
        try:
            aq, rq, kq = S.arburg(x, q)
        except ValueError:
            continue
        for i in range(q):
            h.claim_eq("nested:q=%d:k%d" % (q, i + 1), kq[i], ks[i])
        # rho_p = rho_q * prod_{q<i<=p}(1-|k_i|^2): with |k_i| <= 1 (k1-bound / lemma) the variance cannot increase
        f = rq
        for i in range(q, p):
            f = f * (1 - abs2(ks[i]))
        h.claim_eq("rho_p=rho_q*prod(1-|k|^2):q=%d" % q, rho, f)
        if N <= 3 and not cplx:
            h.claim_le("rho non-increasing:q=%d" % q, rho.real, rq.real)


def case_burg2(h, N, p, cplx):
    S = sp()
    x = h.vec('x', N, cplx)
    try:
        a, rho, k = S.arburg(x, p)
    except ValueError:
        return
    a2, e2, k2 = S.burg._arburg2(x, p)
    # _arburg2 returns the polynomial with its leading 1
    if len(a2) != p + 1:
        h.fail("len2", "len %d" % len(a2))
        return
    h.claim_eq("_arburg2:a0=1", a2[0], 1)
    for i in range(p):
        h.claim_eq("_arburg2:a[%d]" % i, a2[i + 1], a[i])
        h.claim_eq("_arburg2:k[%d]" % i, k2[i], k[i])
    h.claim_eq("_arburg2:E", e2, rho)


def case_k1_bound(h, N, cplx):
    S = sp()
    x = h.vec('x', N, cplx)
    try:
        a, rho, k = S.arburg(x, 1)
    except ValueError:
        return
    h.claim_le("|k1|<=1", abs2(k[0]), 1)


def case_cs_lemma(h, L, cplx):
    """lemma chain over FRESH error vectors e, b (any values):  |2 sum e conj(b)|^2 <= (sum |e|^2 + |b|^2)^2
       (1) Lagrange identity  A*B - |<e,b>|^2 = sum_{i<j} |e_i b_j - e_j b_i|^2         (identity)
       (2) a sum of squares is >= 0                                                       (squares of abstracted terms)
       (3) (A+B)^2 >= 4 A B  for arbitrary reals A, B                                     (fresh scalars)
       energy^2 = (A+B)^2 >= 4AB >= 4|<e,b>|^2, hence |k| = |2<e,b>|/energy <= 1."""
    e = h.vec('e', L, cplx)
    b = h.vec('b', L, cplx)
    A = 0
    B = 0
    c = 0
    for n in range(L):
        A = A + abs2(e[n])
        B = B + abs2(b[n])
        c = c + e[n] * conj(b[n])
    sq = 0
    sq_abs = 0
    for i in range(L):
        for j in range(i + 1, L):
            d = e[i] * b[j] - e[j] * b[i]
            sq = sq + abs2(d)
            sq_abs = sq_abs + abs2(h.let("d%d_%d" % (i, j), d))
    h.claim_eq("lagrange: A*B-|<e,b>|^2 = sum|e_i b_j - e_j b_i|^2", A * B - abs2(c), sq)
    h.claim_le("sum of squares >= 0", 0, sq_abs)
    As = h.let("A", A)
    Bs = h.let("B", B)
    h.claim_le("(A+B)^2 >= 4AB", 4 * As * Bs, (As + Bs) * (As + Bs))


def case_criteria(h, N, p, cplx):
    S = sp()
    x = h.vec('x', N, cplx)
    if h.is_sym():
        import spectrum.criteria as C
        orig = C.Criteria.__call__
        cnt = [0]

        def stub(self, rho=None, k=None, N=None, norm=True):
            cnt[0] += 1
            c = h.real("crit%d" % cnt[0])
            return bool(c > 0)
        C.Criteria.__call__ = stub
    try:
        try:
            a, rho, k = S.arburg(x, p, criteria='AIC')
        except ValueError:
            return
    finally:
        if h.is_sym():
            C.Criteria.__call__ = orig
    q = len(a)
    if len(k) != q or q > p:
        h.fail("criteria:len", "len(a)=%d len(k)=%d p=%d" % (q, len(k), p))
        return
    if q == 0:
        h.claim_eq("criteria:order0:rho", rho, msq(x))
        return
    try:
        aq, rq, kq = S.arburg(x, q)
    except ValueError:
        return
    for i in range(q):
        h.claim_eq("criteria:order%d:a[%d]" % (q, i), a[i], aq[i])
        h.claim_eq("criteria:order%d:k[%d]" % (q, i), k[i], kq[i])
    h.claim_eq("criteria:order%d:rho" % q, rho, rq)


def cases(tier, seed):
    q = tier == 'quick'
    out = []
    for cplx, Ns in ((False, (3, 4, 5) if q else (3, 4, 5, 6)), (True, (3,) if q else (3, 4, 5))):
        tag = 'cx' if cplx else 're'
        for N in Ns:
            for p in (1, 2):
                if p >= N - 1 and N == 3 and p == 2:
                    pass
                out.append(Case("burg:%s:N=%d:p=%d" % (tag, N, p), case_burg, dict(N=N, p=p, cplx=cplx),
                                timeout=120 if q else 600, max_paths=16, feas_timeout=5, wall=400 if q else 2000))
                if N <= 4 or not q:
                    out.append(Case("arburg2:%s:N=%d:p=%d" % (tag, N, p), case_burg2, dict(N=N, p=p, cplx=cplx),
                                    timeout=120 if q else 600, max_paths=16, feas_timeout=5, wall=400 if q else 2000))
    if not q:
        out.append(Case("burg:re:N=5:p=3", case_burg, dict(N=5, p=3, cplx=False), timeout=900, max_paths=16, feas_timeout=5, wall=2400))
    for N, cplx in ([(3, False)] if q else [(3, False), (4, False)]):
        out.append(Case("k1-bound:%s:N=%d" % ('cx' if cplx else 're', N), case_k1_bound, dict(N=N, cplx=cplx),
                        timeout=120 if q else 900, feas_timeout=5))
    for L, cplx in ([(1, False), (2, False), (3, False), (1, True), (2, True)] if q else
                    [(1, False), (2, False), (3, False), (4, False), (1, True), (2, True), (3, True)]):
        out.append(Case("cauchy-schwarz-lemma:%s:L=%d" % ('cx' if cplx else 're', L), case_cs_lemma, dict(L=L, cplx=cplx),
                        lemma=True, timeout=120 if q else 900))
    for N, p, cplx in ([(4, 2, False)] if q else [(4, 2, False), (5, 2, False), (4, 2, True)]):
        out.append(Case("criteria:%s:N=%d:p=%d" % ('cx' if cplx else 're', N, p), case_criteria, dict(N=N, p=p, cplx=cplx),
                        timeout=120 if q else 600, max_paths=32, feas_timeout=5, wall=600 if q else 2000))
    from .common import reuse_cases, Call
    out += reuse_cases([("arburg(p=1)", Call('arburg', 1), 3, True), ("arburg(p=2)", Call('arburg', 2), 4, False),
                        ("arburg(p=1)", Call('arburg', 1), 3, False)] +
                       ([] if q else [("arburg(p=2)", Call('arburg', 2), 4, True)]), q)
    return out
