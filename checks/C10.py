"""C10 - Levinson and the Toeplitz / Hermitian / Cholesky solvers solve their equations."""
from symx.run import Case
from symx.number import SymBool, Sym
from .common import sp, conj, abs2, stepup

ID = "C10"
EXPLANATION = ("LEVINSON, TOEPLITZ, HERMTOEP and CHOLESKY are executed on symbolic autocorrelation sequences / systems; "
               "every path through their singularity tests is explored (path conditions decided by z3) and on each "
               "path z3 decides the normal equations T[1,a]=[P,0..], P=r0*prod(1-|k|^2), P>0, |k|<1, nesting of the "
               "reflection coefficients, the Sylvester characterisation of the raising paths, absence of roots "
               "outside the unit circle (direct query, p<=2) and T x = z for the solvers.")
BOUNDS = {
    "quick": "LEVINSON real order<=6, complex order<=3; Sylvester oracle order<=3 (real), <=2 (complex); root query "
             "order<=2 real, 1 complex; HERMTOEP M<=4 (5x5 systems) real and complex, TOEPLITZ M<=3 real, M<=2 complex; CHOLESKY n<=2 complex, n<=3 real",
    "thorough": "LEVINSON real order<=6, complex order<=4; Sylvester order<=4 real, 3 complex; root query order<=2 real, 1 complex (+ Schur-Cohn lemma p<=2 real, 1 complex); "
                "HERMTOEP M<=4, TOEPLITZ M<=4 real, M<=2 complex; CHOLESKY n<=3",
}
ASSUMPTIONS = ["floats modelled as exact reals", "sizes concrete and bounded",
               "CHOLESKY: library factorisations replaced by their contract (fresh L, positive diagonal, L L^H = A)"]
OUTSIDE = ["orders above the bounds (property text goes to 40)", "conditioning / rounding", "stability for p>2 is shown "
           "via the step-up identity and |k|<1 (Schur-Cohn argument is not re-proved by the solver)"]
BUDGET = {"quick": 900, "thorough": 3400}


def herm_toeplitz_entry(r, i, j):
    return r[i - j] if i >= j else conj(r[j - i])


def det(M):
    n = len(M)
    if n == 1:
        return M[0][0]
    if n == 2:
        return M[0][0] * M[1][1] - M[0][1] * M[1][0]
    acc = 0
    for j in range(n):
        minor = [row[:j] + row[j + 1:] for row in M[1:]]
        t = M[0][j] * det(minor)
        acc = acc + t if j % 2 == 0 else acc - t
    return acc


def make_r(h, p, cplx):
    r0 = h.real('rzero')
    if cplx:
        rest = h.complex_vec('r', p)
        rs = [r0 * (1 + 0j)] + [rest[i] for i in range(p)]
        if h.is_sym():
            from symx.array import SymArray
            return SymArray.make(rs, cplx=True)
        import numpy as np
        return np.array(rs, dtype=complex)
    rest = h.real_vec('r', p)
    rs = [r0] + [rest[i] for i in range(p)]
    if h.is_sym():
        from symx.array import SymArray
        return SymArray.make(rs)
    import numpy as np
    return np.array(rs, dtype=float)


def case_levinson(h, p, cplx, sylvester, rootq):
    S = sp()
    r = make_r(h, p, cplx)
    try:
        A, P, k = S.LEVINSON(r)
        raised = False
    except ValueError:
        raised = True
    # Sylvester oracle: leading principal minors of the (p+1)x(p+1) Hermitian Toeplitz matrix
    minors = None
    if sylvester:
        minors = []
        for n in range(1, p + 2):
            M = [[herm_toeplitz_entry(r, i, j) for j in range(n)] for i in range(n)]
            minors.append(det(M).real)
    if raised:
        if sylvester:
            pd = True
            for m in minors:
                pd = (m > 0) & pd
            h.claim_true("raises-only-if-not-PD", ~pd if isinstance(pd, SymBool) else (not pd))
        return
    if sylvester:
        for i, m in enumerate(minors):
            h.claim_lt("no-raise=>minor%d>0" % (i + 1), 0, m)
    if len(A) != p or len(k) != p:
        h.fail("len", "len(A)=%d len(k)=%d" % (len(A), len(k)))
        return
    a = [1] + [A[i] for i in range(p)]
    for i in range(p + 1):
        acc = 0
        for j in range(p + 1):
            acc = acc + herm_toeplitz_entry(r, i, j) * a[j]
        h.claim_eq("normal-eq-row%d" % i, acc, P if i == 0 else 0)
    prod = r[0].real
    for i in range(p):
        prod = prod * (1 - abs2(k[i]))
        h.claim_lt("|k%d|<1" % (i + 1), abs2(k[i]), 1)
    h.claim_eq("P=r0*prod(1-|k|^2)", P, prod)
    h.claim_real("P real", P)
    h.claim_lt("P>0", 0, P.real)
    su = stepup([k[i] for i in range(p)])
    for i in range(p):
        h.claim_eq("a=stepup(k)[%d]" % i, A[i], su[i])
    # nesting: the order-q solution has the first q reflection coefficients
    for q in range(1, p):
        Aq, Pq, kq = S.LEVINSON(r, order=q, allow_singularity=True)
        for i in range(q):
            h.claim_eq("nested:q=%d:k%d" % (q, i + 1), kq[i], k[i])
    if rootq:
        # no root of z^p + a1 z^(p-1) + ... + ap with |z| >= 1
        z = h.cplx('z')
        acc = 1
        for i in range(p):
            acc = acc * z + A[i]
        if h.is_sym():
            h.claim_true("no-root-outside-unit-circle", ~((acc == 0) & (abs2(z) >= 1)))
        else:
            import numpy as np
            roots = np.roots([1] + [complex(A[i]) for i in range(p)])
            h.claim_true("no-root-outside-unit-circle", bool(np.all(np.abs(roots) < 1 + 1e-9)))


def case_levinson_allow(h, p, cplx):
    """allow_singularity=True never raises; same equations wherever the recursion's divisors are non-zero"""
    S = sp()
    r = make_r(h, p, cplx)
    A, P, k = S.LEVINSON(r, allow_singularity=True)
    a = [1] + [A[i] for i in range(p)]
    for i in range(p + 1):
        acc = 0
        for j in range(p + 1):
            acc = acc + herm_toeplitz_entry(r, i, j) * a[j]
        h.claim_eq("normal-eq-row%d" % i, acc, P if i == 0 else 0)


def case_toeplitz(h, M, cplx, zcplx=None):
    # zcplx: kind of the right-hand side when it differs from the matrix (real matrix with a complex z and vice versa)
    S = sp()
    T0 = h.cplx('Tzero') if cplx else h.real('Tzero')
    TC = h.vec('TC', M, cplx)
    TR = h.vec('TR', M, cplx)
    Z = h.vec('Z', M + 1, cplx if zcplx is None else zcplx)
    try:
        X = S.toeplitz.TOEPLITZ(T0, TC, TR, Z)
    except ValueError:
        return

    def T(i, j):
        if i == j:
            return T0
        return TC[i - j - 1] if i > j else TR[j - i - 1]
    if len(X) != M + 1:
        h.fail("len", "len %d" % len(X))
        return
    for i in range(M + 1):
        acc = 0
        for j in range(M + 1):
            acc = acc + T(i, j) * X[j]
        h.claim_eq("Tx=z:row%d" % i, acc, Z[i])


def case_hermtoep(h, M, cplx, zcplx=None):
    S = sp()
    T0 = h.real('Tzero')
    Tv = h.vec('T', M, cplx)
    Z = h.vec('Z', M + 1, cplx if zcplx is None else zcplx)
    try:
        X = S.toeplitz.HERMTOEP(T0, Tv, Z)
    except ValueError:
        return

    def T(i, j):
        if i == j:
            return T0
        return Tv[i - j - 1] if i > j else conj(Tv[j - i - 1])
    if len(X) != M + 1:
        h.fail("len", "len %d" % len(X))
        return
    for i in range(M + 1):
        acc = 0
        for j in range(M + 1):
            acc = acc + T(i, j) * X[j]
        h.claim_eq("Tx=z:row%d" % i, acc, Z[i])


def case_cholesky(h, n, cplx, method):
    S = sp()
    import numpy as np
    # Hermitian A from free entries (positive-definiteness enters through the factorisation contract / replay)
    ent = {}
    for i in range(n):
        ent[(i, i)] = h.real("A%d%d" % (i, i))
        for j in range(i):
            v = h.cplx("A%d%d" % (i, j)) if cplx else h.real("A%d%d" % (i, j))
            ent[(i, j)] = v
            ent[(j, i)] = conj(v)
    B = h.vec('B', n, cplx)
    rows = [[ent[(i, j)] * (1 + 0j if cplx else 1) for j in range(n)] for i in range(n)]
    if h.is_sym():
        from symx.array import SymArray
        A = SymArray.make(rows, cplx=cplx)
    else:
        A = np.array(rows, dtype=complex if cplx else float)
        w = np.linalg.eigvalsh(A)
        h.assume(bool(w.min() > 1e-6), "A positive definite")
    X = S.CHOLESKY(A, B, method)
    for i in range(n):
        acc = 0
        for j in range(n):
            acc = acc + rows[i][j] * X[j]
        h.claim_eq("Ax=B:row%d" % i, acc, B[i])


def cases(tier, seed):
    q = tier == 'quick'
    out = []
    for cplx, pmax, smax, rmax in ((False, 6, 3 if q else 4, 2),
                                   (True, 3 if q else 4, 2 if q else 3, 1)):
        tag = 'cx' if cplx else 're'
        for p in range(1, pmax + 1):
            out.append(Case("LEVINSON:%s:p=%d" % (tag, p), case_levinson,
                            dict(p=p, cplx=cplx, sylvester=(p <= smax), rootq=(p <= rmax)),
                            timeout=60 if q else 300, max_paths=32, wall=400 if q else 2400))
            out.append(Case("LEVINSON:allow_singularity:%s:p=%d" % (tag, p), case_levinson_allow, dict(p=p, cplx=cplx),
                            timeout=60 if q else 300))
    for cplx in (False, True):
        tag = 'cx' if cplx else 're'
        for M in range(1, (3 if q else 4) + 1):
            if M <= (2 if cplx else (3 if q else 4)):
                out.append(Case("TOEPLITZ:%s:M=%d" % (tag, M), case_toeplitz, dict(M=M, cplx=cplx), timeout=60 if q else 300,
                                wall=300 if q else 2400))
            out.append(Case("HERMTOEP:%s:M=%d" % (tag, M), case_hermtoep, dict(M=M, cplx=cplx), timeout=60 if q else 300,
                            wall=300 if q else 2400))
        if q:
            out.append(Case("HERMTOEP:%s:M=4" % tag, case_hermtoep, dict(M=4, cplx=cplx), timeout=60, wall=300))
        # mixed kinds: real matrix with a complex right-hand side and complex matrix with a real one (seed C10d)
        for M in (1, 2):
            mtag = "%s-matrix:%s-rhs" % (tag, 're' if cplx else 'cx')
            out.append(Case("TOEPLITZ:%s:M=%d" % (mtag, M), case_toeplitz, dict(M=M, cplx=cplx, zcplx=not cplx),
                            timeout=60 if q else 300, wall=300 if q else 2400))
            out.append(Case("HERMTOEP:%s:M=%d" % (mtag, M), case_hermtoep, dict(M=M, cplx=cplx, zcplx=not cplx),
                            timeout=60 if q else 300, wall=300 if q else 2400))
        for method in ('numpy_solver', 'numpy', 'scipy'):
            for n in range(1, (3 if (not cplx or not q) else 2) + 1):
                out.append(Case("CHOLESKY:%s:%s:n=%d" % (method, tag, n), case_cholesky, dict(n=n, cplx=cplx, method=method),
                                timeout=60 if q else 300))
    # stability beyond the direct root query: a = step-up(k) (decided above) + |k|<1 (decided above) + this lemma
    from .common import case_schur_cohn_lemma
    for p_, cplx in [(1, False), (2, False), (1, True)]:
        out.append(Case("schur-cohn-lemma:%s:p=%d" % ('cx' if cplx else 're', p_), case_schur_cohn_lemma,
                        dict(p=p_, cplx=cplx), lemma=True, timeout=120 if q else 900))
    return out
