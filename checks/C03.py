"""C03 - estimates are quadratic in signal amplitude."""
import numpy as np

from symx.run import Case
from symx.number import SymBool, Sym, ctx
from .common import sp, conj, abs2
from . import zoo

ID = "C03"
EXPLANATION = ("Every estimator (function and class form) is executed twice in the same symbolic run: on data x and on c*x with a "
               "symbolic scalar c != 0 (complex c for complex data). z3 decides psd(c x) = |c|^2 psd(x), rho(c x) = |c|^2 rho(x), "
               "and that AR / MA / reflection coefficients, multitaper weights and the subspace dimension are unchanged; MUSIC "
               "unchanged, EV and the singular values times |c|. Decisions taken by the second run are explored under the "
               "first run's path condition, so an order / subspace decision that depends on scale shows up as a feasible disagreeing path. "
               "The automatic decisions themselves: the real aic_eigen / mdl_eigen (subspace dimension = argmin) and AIC, AICc, KIC, AKICc, FPE, MDL (AR order) are "
               "executed on symbolic positive singular values / prediction errors and on their |c|- resp. |c|^2-multiples, with log and fractional "
               "powers as an algebra; z3 decides that every criterion value shifts by the same amount (or scales by the same positive factor), so no comparison between orders changes.")
BOUNDS = {
    "quick": "functions: CORRELATION/xcorr N=3, speriodogram N=3 NFFT=4, CORRELOGRAMPSD N=3, aryule p<=2 N=3, arburg p<=2 N=4 (real) / p=1 N=3 (complex), "
             "arcovar/modcovar(+marple) p=1 N=4, minvar m=2 N=4, ma / arma_estimate with 1-2 symbolic samples, pmtm unity/eigen/adapt(<=1 iteration) N=3 NFFT=4, "
             "eigen music/ev N=4 P=2 (NSIG explicit and threshold); classes: all 12 at minimal size; "
             "criteria: aic_eigen / mdl_eigen on n = 3..5 singular values, AR criteria at k=1 (any rho_k, rho_k+1 > 0), scale in [1e-3, 1e3] (squared: [1e-6, 1e6])",
    "thorough": "adds p=2 for the covariance family, N+1 everywhere, complex data for every estimator that admits it, adapt <= 2 iterations; criteria n <= 8, k <= 3",
}
ASSUMPTIONS = ["floats modelled as exact reals", "criteria cases: log and x^r uninterpreted on positive arguments with exactly the rewrite rules log(xy) = log x + log y, "
               "log(x^r) = r log x, (xy)^r = x^r y^r; float exponents such as 1./3 read as the rational they stand for", "c != 0 (the box 1e-3 <= |c| <= 1e3 is subsumed)", "fft = DFT definition; lstsq exact",
               "svd: for the scaled run the stub returns S2 = |c| S1 and Vh2 = Vh1; the check separately decides that the matrix handed to svd is "
               "D*FB with D = diag(c.., conj(c)..), of which this relation is the mathematical consequence (singular vectors up to phase, which the pseudo-spectrum ignores)",
               "multitaper: tapers/eigenvalues supplied as constants; adaptive iteration bounded (paths needing more iterations are cut and counted)"]
OUTSIDE = ["the whole-function run of eigen() with criteria-selected NSIG (its decision function is checked separately, see criteria cases)", "CAT criterion (writes into a float numpy array)", "float-only effects such as the unscaled `assert e.imag < 1e-4` in arcovar",
           "orders above the bounds"]
BUDGET = {"quick": 900, "thorough": 3400}


def scalar(h, cplx):
    if cplx:
        c = h.cplx('c')
        h.assume(c != 0, "c != 0")
    else:
        c = h.real('c', nonzero=True)
    return c, abs2(c)


def cmp_vec(h, tag, a, b, factor=1):
    if a is None and b is None:
        return
    if a is None or b is None or len(a) != len(b):
        h.fail(tag + ":len", "lengths differ / missing (%s vs %s)" % (None if a is None else len(a), None if b is None else len(b)))
        return
    for i in range(len(a)):
        h.claim_eq("%s[%d]" % (tag, i), b[i], a[i] * factor)


def case_function(h, fn, cplx, N, kw):
    S = sp()
    x = (h.mixed_vec('x', N, cplx, kw['nsym']) if kw.get('nsym') else h.vec('x', N, cplx))
    c, c2 = scalar(h, cplx)
    x2 = x * c
    try:
        if fn == 'CORRELATION':
            for norm in ('biased', 'unbiased', None):
                cmp_vec(h, "CORRELATION:%s" % norm, S.CORRELATION(x, maxlags=N - 1, norm=norm), S.CORRELATION(x2, maxlags=N - 1, norm=norm), c2)
            cmp_vec(h, "CORRELATION:coeff", S.CORRELATION(x, maxlags=N - 1, norm='coeff'), S.CORRELATION(x2, maxlags=N - 1, norm='coeff'), 1)
        elif fn == 'xcorr':
            for norm in ('biased', 'unbiased', None):
                cmp_vec(h, "xcorr:%s" % norm, S.xcorr(x, maxlags=N - 1, norm=norm)[0], S.xcorr(x2, maxlags=N - 1, norm=norm)[0], c2)
        elif fn == 'speriodogram':
            cmp_vec(h, "speriodogram", S.speriodogram(x, NFFT=4, detrend=False, scale_by_freq=False),
                    S.speriodogram(x2, NFFT=4, detrend=False, scale_by_freq=False), c2)
        elif fn == 'CORRELOGRAMPSD':
            for m in ('CORRELATION', 'xcorr'):
                cmp_vec(h, "CORRELOGRAMPSD:" + m, S.CORRELOGRAMPSD(x, lag=N - 1, NFFT=2 * N, correlation_method=m),
                        S.CORRELOGRAMPSD(x2, lag=N - 1, NFFT=2 * N, correlation_method=m), c2)
        elif fn == 'aryule':
            a1, p1, k1 = S.aryule(x, kw['p'])
            a2, p2, k2 = S.aryule(x2, kw['p'])
            cmp_vec(h, "aryule:ar", a1, a2)
            cmp_vec(h, "aryule:k", k1, k2)
            h.claim_eq("aryule:rho", p2, p1 * c2)
        elif fn == 'arburg':
            a1, p1, k1 = S.arburg(x, kw['p'])
            a2, p2, k2 = S.arburg(x2, kw['p'])
            cmp_vec(h, "arburg:ar", a1, a2)
            cmp_vec(h, "arburg:k", k1, k2)
            h.claim_eq("arburg:rho", p2, p1 * c2)
        elif fn in ('arcovar', 'modcovar'):
            f = getattr(S, fn)
            a1, e1 = f(x, kw['p'])
            a2, e2 = f(x2, kw['p'])
            cmp_vec(h, fn + ":ar", a1, a2)
            h.claim_eq(fn + ":e", e2, e1 * c2)
        elif fn == 'arcovar_marple':
            r1 = S.arcovar_marple(x, kw['p'])
            r2 = S.arcovar_marple(x2, kw['p'])
            cmp_vec(h, fn + ":af", r1[0][:kw['p']], r2[0][:kw['p']])
            h.claim_eq(fn + ":pf", r2[1], r1[1] * c2)
        elif fn == 'modcovar_marple':
            r1 = S.modcovar_marple(x, kw['p'])
            r2 = S.modcovar_marple(x2, kw['p'])
            cmp_vec(h, fn + ":a", r1[0][:kw['p']], r2[0][:kw['p']])
            h.claim_eq(fn + ":p", r2[1], r1[1] * c2)
        elif fn == 'minvar':
            r1 = S.minvar(x, kw['m'], NFFT=2 * kw['m'])
            r2 = S.minvar(x2, kw['m'], NFFT=2 * kw['m'])
            cmp_vec(h, "minvar:psd", r1[0], r2[0], c2)
            cmp_vec(h, "minvar:A", r1[1], r2[1])
            cmp_vec(h, "minvar:k", r1[2], r2[2])
        elif fn == 'ma':
            b1, r1 = S.ma(x, 1, 2)
            b2, r2 = S.ma(x2, 1, 2)
            cmp_vec(h, "ma:b", b1, b2)
            h.claim_eq("ma:rho", r2, r1 * c2)
        elif fn == 'arma_estimate':
            a1, b1, r1 = S.arma_estimate(x, 1, 1, 3)
            a2, b2, r2 = S.arma_estimate(x2, 1, 1, 3)
            cmp_vec(h, "arma:ar", a1, a2)
            cmp_vec(h, "arma:ma", b1, b2)
            h.claim_eq("arma:rho", r2, r1 * c2)
    except ValueError:
        return


def case_class(h, name, cplx):
    N = zoo.DEFAULT_N[name]
    x = zoo.data(h, name, cplx, N)
    c, c2 = scalar(h, cplx)
    x2 = x * c
    subspace = name in ('pmusic', 'pev')
    if subspace and h.is_sym():
        install_svd_relation(h, c, c2)
    p1 = zoo.make(name, x, n=4, fs=1.0, scale=False)
    try:
        a = zoo.psd_of(p1)
        p2 = zoo.make(name, x2, n=4, fs=1.0, scale=False)
        b = zoo.psd_of(p2)
    except zoo.Degenerate:
        return
    finally:
        if h.is_sym():
            ctx().svd_hook = None
    if name == 'pmusic':
        cmp_vec(h, "psd (MUSIC unchanged)", a, b, 1)
    elif name == 'pev':
        absc = abs_of(h, c, c2)
        cmp_vec(h, "psd (EV times |c|)", a, b, absc)
    else:
        cmp_vec(h, "psd", a, b, c2)
    for attr in ('ar', 'ma', 'reflection'):
        va, vb = getattr(p1, attr, None), getattr(p2, attr, None)
        if va is not None or vb is not None:
            cmp_vec(h, attr, va, vb)
    ra, rb = getattr(p1, 'rho', None), getattr(p2, 'rho', None)
    if ra is not None and rb is not None:
        h.claim_eq("rho", rb, ra * c2)
    if subspace:
        absc = abs_of(h, c, c2)
        cmp_vec(h, "eigenvalues times |c|", p1.eigenvalues, p2.eigenvalues, absc)
    if name == 'MultiTapering':
        w1, w2 = np.asarray(p1.weights, dtype=object).ravel(), np.asarray(p2.weights, dtype=object).ravel()
        cmp_vec(h, "weights", list(w1), list(w2))


def abs_of(h, c, c2):
    if h.is_sym():
        return abs(c)
    return abs(c)


def install_svd_relation(h, c, c2):
    """second svd call: S2 = |c| S1, Vh2 = Vh1; also claim that the matrix handed over is D * (first matrix)"""
    cx = ctx()
    state = {'first': None}
    absc = abs(c)

    def hook(a):
        if state['first'] is None:
            state['first'] = 'pending'
            return None       # first call: fresh arbitrary (S, Vh) from the stub
        a1, S1, V1 = state['first']
        rows = a.shape[0] // 2
        for i in range(a.shape[0]):
            d = c if i < rows else conj(c)
            for j in range(a.shape[1]):
                h.claim_eq("svd input of the scaled run = D*FB [%d,%d]" % (i, j), a[i, j], a1[i, j] * d)
        return (S1 * absc, V1)
    cx.svd_hook = hook
    # capture the first call's result once it has happened
    orig = hook

    def wrapper(a):
        if state['first'] is None:
            state['first'] = 'called'
            cx.svd_hook = None
            from symx import stubs
            _, S, V = stubs.svd_stub(a)
            cx.svd_hook = wrapper
            state['first'] = (a.copy(), S, V)
            return (S, V)
        return orig(a)
    cx.svd_hook = wrapper


def case_eigen_threshold(h, method, cplx):
    """subspace dimension from the threshold rule does not depend on scale"""
    S = sp()
    x = h.vec('x', 4, cplx)
    c, c2 = scalar(h, cplx)
    x2 = x * c
    thr = 2.0
    if h.is_sym():
        install_svd_relation(h, c, c2)
    try:
        psd1, s1 = S.eigen(x, 2, NSIG=None, method=method, threshold=thr, NFFT=4)
        psd2, s2 = S.eigen(x2, 2, NSIG=None, method=method, threshold=thr, NFFT=4)
    finally:
        if h.is_sym():
            ctx().svd_hook = None
    absc = abs_of(h, c, c2)
    cmp_vec(h, "pseudo-spectrum", psd1, psd2, 1 if method == 'music' else absc)
    cmp_vec(h, "singular values", s1, s2, absc)


def case_pmtm(h, method, cplx, N, n, nsym=None):
    S = sp()
    x = h.vec('x', N, cplx) if nsym is None else h.mixed_vec('x', N, cplx, nsym)
    c, c2 = scalar(h, cplx)
    x2 = x * c
    t, lam = zoo.tapers_const(h, N)
    r1 = S.pmtm(x, e=lam, v=t, NFFT=n, method=method, show=False)
    r2 = S.pmtm(x2, e=lam, v=t, NFFT=n, method=method, show=False)
    sk1, sk2 = np.asarray(r1[0], dtype=object), np.asarray(r2[0], dtype=object)
    for i in range(sk1.shape[0]):
        for k in range(sk1.shape[1]):
            h.claim_eq("Sk[%d,%d] linear" % (i, k), sk2[i, k], sk1[i, k] * c)
    w1, w2 = np.asarray(r1[1], dtype=object).ravel(), np.asarray(r2[1], dtype=object).ravel()
    cmp_vec(h, "weights unchanged", list(w1), list(w2))


FUNCS = [
    ('CORRELATION', 3, {}), ('xcorr', 3, {}), ('speriodogram', 3, {}), ('CORRELOGRAMPSD', 3, {}),
    ('aryule', 3, {'p': 1}), ('aryule', 3, {'p': 2}), ('arburg', 3, {'p': 1}), ('arburg', 4, {'p': 2}),
    ('arcovar', 4, {'p': 1}), ('modcovar', 4, {'p': 1}), ('arcovar_marple', 4, {'p': 1}), ('modcovar_marple', 4, {'p': 1}),
    ('minvar', 4, {'m': 2}), ('ma', 3, {'nsym': 2}), ('arma_estimate', 5, {'nsym': 1}),
]
FUNCS_T = [('arburg', 5, {'p': 2}), ('arcovar', 5, {'p': 2}), ('modcovar', 5, {'p': 2}), ('arcovar_marple', 5, {'p': 2}),
           ('modcovar_marple', 5, {'p': 2}), ('minvar', 5, {'m': 3}), ('aryule', 4, {'p': 3}), ('arma_estimate', 5, {'nsym': 2})]


def _arr(h, vals):
    if h.is_sym():
        from symx.array import SymArray
        return SymArray.make(list(vals))
    return np.array([float(v) for v in vals])


def case_criteria_eigen(h, name, n, N):
    """the subspace decision argmin_k crit(k) does not depend on the scale of the singular values: the real
    aic_eigen / mdl_eigen are executed on symbolic positive s and on a*s (a = |c|), logarithms and fractional powers as an
    algebra (log xy = log x + log y, log x^r = r log x); crit(a s)[k] - crit(s)[k] must be the same number for every k"""
    import sys as _sys
    sp()
    C = _sys.modules['spectrum.criteria']
    if h.is_sym():
        ctx().log_algebra = True
    s = [h.real('s%d' % i, positive=True) for i in range(n)]
    a = h.real('a', lo=0.001, hi=1000.0)
    f = getattr(C, name)
    base = f(_arr(h, s), N)
    scaled = f(_arr(h, [a * v for v in s]), N)
    if len(base) != n - 1 or len(scaled) != n - 1:
        h.fail("len", "criterion vector of length %d / %d for %d singular values" % (len(base), len(scaled), n))
        return
    d0 = scaled[0] - base[0]
    for k in range(1, n - 1):
        h.claim_eq("shift[%d]=shift[0]" % k, scaled[k] - base[k], d0)


def case_criteria_ar(h, name, N, k):
    """order decision of the AR criteria: comparing crit(rho_k, k) with crit(rho_{k+1}, k+1) gives the same answer for
    |c|^2 rho: log criteria shift by a constant, FPE scales by |c|^2, CAT by 1/|c|^2"""
    import sys as _sys
    sp()
    C = _sys.modules['spectrum.criteria']
    if h.is_sym():
        ctx().log_algebra = True
    r0 = h.real('rho0', positive=True)
    r1 = h.real('rho1', positive=True)
    a = h.real('a', lo=0.000001, hi=1000000.0)
    f = getattr(C, name)
    if name == 'CAT':
        b = f(N, _arr(h, [r0, r1]), None)
        sc = f(N, _arr(h, [a * r0, a * r1]), None)
        for i in range(2):
            h.claim_eq("CAT[%d] scales by 1/|c|^2" % i, sc[i] * a, b[i])
        return
    b0, b1 = f(N, r0, k), f(N, r1, k + 1)
    s0, s1 = f(N, a * r0, k), f(N, a * r1, k + 1)
    if name == 'FPE':
        h.claim_eq("FPE(k) scales by |c|^2", s0, a * b0)
        h.claim_eq("FPE(k+1) scales by |c|^2", s1, a * b1)
    else:
        h.claim_eq("difference between consecutive orders unchanged", s1 - s0, b1 - b0)


def cases(tier, seed):
    q = tier == 'quick'
    out = []
    for name in ('aic_eigen', 'mdl_eigen'):
        for n in ((3, 4, 5) if q else (3, 4, 5, 6, 7, 8)):
            out.append(Case("criteria-eigen:%s:n=%d" % (name, n), case_criteria_eigen, dict(name=name, n=n, N=8),
                            timeout=60 if q else 300, max_paths=8, feas_timeout=3))
    for name in ('AIC', 'AICc', 'KIC', 'AKICc', 'FPE', 'MDL'):
        for k in ((1,) if q else (1, 2, 3)):
            out.append(Case("criteria-ar:%s:k=%d" % (name, k), case_criteria_ar, dict(name=name, N=16, k=k),
                            timeout=60 if q else 300, max_paths=8, feas_timeout=3))
    for fn, N, kw in FUNCS + ([] if q else FUNCS_T):
        for cplx in (False, True):
            if cplx and (kw.get('nsym') or (q and fn in ('arburg', 'aryule') and kw.get('p') == 2) or (fn == 'minvar' and kw.get('m') == 3)):
                continue
            tag = "%s:%s:N=%d:%s" % (fn, 'cx' if cplx else 're', N, ",".join("%s=%s" % kv for kv in sorted(kw.items())))
            out.append(Case("function:" + tag, case_function, dict(fn=fn, cplx=cplx, N=N, kw=kw), timeout=120 if q else 600,
                            max_paths=16, feas_timeout=3, wall=500 if q else 2400))
    for name in zoo.ALL:
        for cplx in (False, True):
            if cplx and name in ('parma', 'pma'):
                continue
            if cplx and q and name in ('pburg', 'pyule', 'pminvar'):
                continue
            out.append(Case("class:%s:%s" % (name, 'cx' if cplx else 're'), case_class, dict(name=name, cplx=cplx),
                            timeout=120 if q else 600, max_paths=16, feas_timeout=3, wall=500 if q else 2400))
    for method in ('music', 'ev'):
        for cplx in (False, True):
            out.append(Case("eigen:threshold:%s:%s" % (method, 'cx' if cplx else 're'), case_eigen_threshold,
                            dict(method=method, cplx=cplx), timeout=120 if q else 600, max_paths=16, feas_timeout=5))
    for method in ('unity', 'eigen', 'adapt'):
        for cplx in (False, True):
            if method == 'adapt' and cplx and q:
                continue
            out.append(Case("pmtm:%s:%s:N=3:NFFT=4%s" % (method, 'cx' if cplx else 're', ':nsym=0' if method == 'adapt' else ''), case_pmtm,
                            dict(method=method, cplx=cplx, N=3, n=4, nsym=(0 if method == 'adapt' else None)), timeout=120 if q else 600, max_paths=8,
                            feas_timeout=5, max_decisions=120, wall=500 if q else 2400))
    return out
