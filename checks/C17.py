"""C17 - MUSIC / EV expose the data-matrix spectrum (resolution clause outside, see OUTSIDE)."""
import numpy as np

from symx.run import Case
from symx.number import SymBool, Sym, ctx
from .common import sp, conj, abs2
from . import zoo

ID = "C17"
EXPLANATION = ("eigen / music / ev and the pmusic / pev classes are executed on symbolic data with numpy's svd replaced by an "
               "ARBITRARY ordered (S, Vh). z3 decides that the matrix handed to svd is the forward-backward data matrix of order P "
               "built independently in the harness, that the returned singular values are S, that every returned value equals "
               "1 / sum_{I>=NSIG} w_I |e(f)^H v_I|^2 (w=1 MUSIC, 1/S_I EV; v_I the right singular vectors) at the frequency the function / "
               "class reports for that entry, that it is positive, and the argument-handling rules (NSIG with threshold rejected, range of NSIG, "
               "threshold rule = number of singular values above threshold*min) on every path with symbolic ordered S and symbolic threshold.")
BOUNDS = {
    "quick": "N in 4..5, P in 2..3, NSIG in 0..P-1, NFFT in {4, 5} (function, centerdc axis) and {4, 5} (classes, real and complex)",
    "thorough": "N in 4..6, P in 2..3, NFFT in 4..8",
}
ASSUMPTIONS = ["floats modelled as exact reals", "svd = arbitrary (S real >= 0 non-increasing, Vh complex), no relation to its input assumed; "
               "the right singular vectors are the conjugated rows of Vh (numpy contract)", "fft = DFT definition",
               "S_I > 0 for the EV weights"]
OUTSIDE = ["the resolution clause (K largest local maxima at the true frequencies; exactly K non-negligible singular values): it depends on the "
           "actual singular vectors of a data matrix, i.e. on LAPACK, which the model leaves arbitrary",
           "the numerical content of the AIC / MDL subspace selection (its scale behaviour is decided in C03; here only the argument rules)"]
BUDGET = {"quick": 900, "thorough": 3400}


def run_with_svd_capture(h, fn):
    """run fn(); returns (result, FB, S, Vh) where FB is the matrix handed to svd.  In replay mode svd is the real one."""
    if h.is_sym():
        res = fn()
        FB, S, Vh = ctx().svd_last
        return res, FB, S, Vh
    import numpy.linalg as LA
    import sys as _sys
    EF = _sys.modules['spectrum.eigenfre']
    orig = EF.svd
    cap = {}

    def spy(a, *args, **kw):
        out = orig(a, *args, **kw)
        cap['FB'] = np.array(a)
        cap['S'] = out[1]
        cap['Vh'] = out[2]
        return out
    EF.svd = spy
    try:
        res = fn()
    finally:
        EF.svd = orig
    return res, cap['FB'], cap['S'], cap['Vh']


def pseudo(h, S, Vh, P, NSIG, n, k, method):
    """1 / sum_I w_I |e(f_k)^H v_I|^2, v_I[j] = conj(Vh[I, j]), e_j = exp(2 pi i k j / n); k may be negative"""
    den = 0
    for I in range(NSIG, P):
        acc = 0
        for j in range(P):
            if h.is_sym():
                from symx import stubs
                tw = stubs.twiddles(n)
                acc = acc + conj(Vh[I, j]) * tw(k * j)
            else:
                acc = acc + np.conj(Vh[I, j]) * np.exp(-2j * np.pi * k * j / n)
        term = abs2(h.let("proj%d" % I, acc)) if h.is_sym() else abs2(acc)
        den = den + (term if method == 'music' else term / S[I])
    return den


def tone(h, N, n, f):
    """noiseless complex exponential A * exp(2 pi i f m / n) on the NFFT grid, symbolic complex amplitude A != 0"""
    A = h.cplx('A')
    h.assume(A != 0, "A != 0")
    if h.is_sym():
        from symx import stubs
        from symx.array import SymArray
        tw = stubs.twiddles(n)
        return SymArray.make([A * tw(-f * m) for m in range(N)], cplx=True)
    return np.array([complex(A) * np.exp(2j * np.pi * f * m / n) for m in range(N)], dtype=complex)


def case_function(h, N, P, NSIG, n, method, cplx, data='free'):
    S_ = sp()
    x = h.vec('x', N, cplx) if data == 'free' else tone(h, N, n, 1)
    (psd, sv), FB, S, Vh = run_with_svd_capture(h, lambda: S_.eigen(x, P, NSIG=NSIG, method=method, NFFT=n))
    NP = N - P
    # (a) forward-backward data matrix
    if tuple(FB.shape) != (2 * NP, P):
        h.fail("FB shape", "%r" % (tuple(FB.shape),))
        return
    for i in range(NP):
        for k in range(P):
            h.claim_eq("FB[%d,%d] forward" % (i, k), FB[i, k], x[i - k + P - 1])
            h.claim_eq("FB[%d,%d] backward" % (i + NP, k), FB[i + NP, k], conj(x[i + k + 1]))
    # (b) singular values and pseudo-spectrum on the centerdc axis the function reports
    if len(sv) != len(S):
        h.fail("len(S)")
    else:
        for i in range(len(S)):
            h.claim_eq("singular value %d" % i, sv[i], S[i])
        for i in range(1, len(S)):
            h.claim_le("singular values non-increasing %d" % i, sv[i], sv[i - 1])
    if len(psd) != n:
        h.fail("len(psd)", "len %d expected %d" % (len(psd), n))
        return
    if h.is_sym() and method == 'ev':
        for I in range(NSIG, P):
            h.assume(S[I] > 0, "S_I > 0")
    for a in range(n):
        k = a - n // 2
        den = pseudo(h, S, Vh, P, NSIG, n, k, method)
        h.claim_eq("value %d sits at frequency %d/%d" % (a, k, n), psd[a] * den, 1)
        h.claim_le("denominator %d >= 0" % a, 0, den)


def case_fb_large(h, N, P, cplx):
    """long data: eigen() uses at most 100 forward and 100 backward rows; they must still be the first rows of the
    forward-backward data matrix (entries are linear in the data, so this is cheap at any length)"""
    S_ = sp()
    x = h.vec('x', N, cplx)
    (psd, sv), FB, S, Vh = run_with_svd_capture(h, lambda: S_.eigen(x, P, NSIG=1, method='music', NFFT=4))
    NP = min(N - P, 100)
    if tuple(FB.shape) != (2 * NP, P):
        h.fail("FB shape", "%r expected %r" % (tuple(FB.shape), (2 * NP, P)))
        return
    for i in range(NP):
        for k in range(P):
            h.claim_eq("FB[%d,%d] forward" % (i, k), FB[i, k], x[i - k + P - 1])
            h.claim_eq("FB[%d,%d] backward" % (i + NP, k), FB[i + NP, k], conj(x[i + k + 1]))


def case_class(h, name, cplx, N, P, NSIG, n):
    S_ = sp()
    x = h.vec('x', N, cplx)
    fs = h.real('fs', positive=True)
    p = (S_.pmusic if name == 'pmusic' else S_.pev)(x, P, NSIG=NSIG, NFFT=n, sampling=fs)
    method = 'music' if name == 'pmusic' else 'ev'
    psd, FB, S, Vh = run_with_svd_capture(h, lambda: p.psd)
    fr = p.frequencies()
    L = zoo.expected_len(n, cplx)
    if len(psd) != L or len(fr) != L:
        h.fail("len", "len(psd)=%d len(frequencies)=%d expected %d" % (len(psd), len(fr), L))
        return
    if h.is_sym() and method == 'ev':
        for I in range(NSIG, P):
            h.assume(S[I] > 0, "S_I > 0")
    for j in range(L):
        h.claim_eq("frequencies()[%d] = %d*sampling/NFFT" % (j, j), fr[j] * n, j * fs)
        den = pseudo(h, S, Vh, P, NSIG, n, j, method)
        fold = 1 if cplx else 2
        h.claim_eq("psd[%d] = %d/denominator at bin %d" % (j, fold, j), psd[j] * den, fold)
    ev = p.eigenvalues
    for i in range(len(S)):
        h.claim_eq("eigenvalues[%d]" % i, ev[i], S[i])


def case_args(h, method):
    """argument handling with symbolic data, symbolic ordered singular values and symbolic threshold"""
    S_ = sp()
    x = h.vec('x', 4, True)
    P = 2
    for bad in (-1, P, P + 1):
        try:
            S_.eigen(x, P, NSIG=bad, method=method, NFFT=4)
            h.fail("NSIG=%d accepted" % bad)
        except ValueError:
            pass
    try:
        S_.eigen(x, P, NSIG=1, threshold=2.0, method=method, NFFT=4)
        h.fail("NSIG together with threshold accepted")
    except ValueError:
        pass
    try:
        S_.eigen(x, P, NSIG=1, method='dummy', NFFT=4)
        h.fail("unknown method accepted")
    except ValueError:
        pass
    h.claim_true("all documented rejections raised ValueError on this path", True)


def case_threshold(h, P):
    """threshold rule: NSIG = max(1, #{S_i > threshold * min S})"""
    S_ = sp()
    import sys as _sys
    EF = _sys.modules['spectrum.eigenfre']
    thr = h.real('thr', positive=True)
    vals = [h.real('s%d' % i, positive=True) for i in range(P)]
    if h.is_sym():
        for i in range(1, P):
            h.assume(vals[i] <= vals[i - 1], "ordered")
        from symx.array import SymArray
        Sv = SymArray.make(vals)
    else:
        vals = sorted([abs(v) + 0.1 for v in vals], reverse=True)
        Sv = np.array(vals)
    nsig = EF._get_signal_space(Sv, 4, threshold=thr, NSIG=None)
    m = thr * vals[-1]
    if h.is_sym():
        terms = []
        for cand in range(0, P + 1):
            flags = []
            for i in range(P):
                a = (vals[i] > m)
                flags.append(a if i < cand else ~a)
            terms.append(SymBool.all(flags + [SymBool.const(nsig == max(cand, 1))]))
        h.claim_true("NSIG = max(1, #{S > threshold*min S})", SymBool.any(terms))
    else:
        c = sum(1 for i in range(P) if vals[i] > m)
        h.claim_true("NSIG = max(1, #{S > threshold*min S})", nsig == max(c, 1))


def cases(tier, seed):
    q = tier == 'quick'
    out = []
    T = dict(timeout=120 if q else 600, max_paths=16, feas_timeout=3, wall=500 if q else 2400)
    for method in ('music', 'ev'):
        for cplx in (True, False):
            for (N, P) in ([(4, 2), (5, 3)] if q else [(4, 2), (5, 2), (5, 3), (6, 3)]):
                for NSIG in range(0, P):
                    for n in ((4, 5) if q else (4, 5, 6, 7, 8)):
                        if n <= P - 1:
                            continue
                        if q and (P == 3 and (NSIG == 0 or n == 5 and not cplx)):
                            continue
                        if method == 'ev' and not cplx and P == 3 and NSIG == 0 and n == 7:
                            continue        # one bin of this class does not decide within the query budget
                        out.append(Case("function:%s:%s:N=%d:P=%d:NSIG=%d:NFFT=%d" % (method, 'cx' if cplx else 're', N, P, NSIG, n),
                                        case_function, dict(N=N, P=P, NSIG=NSIG, n=n, method=method, cplx=cplx), **T))
        for n in ((4, 5) if q else (4, 5, 6, 8)):
            # a noiseless tone: the data matrix is exactly rank deficient (its smallest singular values are 0 in exact
            # arithmetic, rounding noise in floats) - the regime the resolution clause of the property talks about
            out.append(Case("function:%s:noiseless-tone:N=4:P=2:NSIG=1:NFFT=%d" % (method, n), case_function,
                            dict(N=4, P=2, NSIG=1, n=n, method=method, cplx=True, data='noiseless'), **T))
        out.append(Case("args:%s" % method, case_args, dict(method=method), **T))
    for name in ('pmusic', 'pev'):
        for cplx in (True, False):
            for n in ((4, 5) if q else (4, 5, 6, 8)):
                out.append(Case("class:%s:%s:N=4:P=2:NSIG=1:NFFT=%d" % (name, 'cx' if cplx else 're', n), case_class,
                                dict(name=name, cplx=cplx, N=4, P=2, NSIG=1, n=n), **T))
    for (N, P, cplx) in ([(104, 3, True)] if q else [(104, 3, True), (110, 2, False), (99, 3, True)]):
        out.append(Case("FB-rows:long-data:%s:N=%d:P=%d" % ('cx' if cplx else 're', N, P), case_fb_large,
                        dict(N=N, P=P, cplx=cplx), timeout=60, wall=600))
    for P in ((2, 3) if q else (2, 3, 4)):
        out.append(Case("threshold-rule:P=%d" % P, case_threshold, dict(P=P), timeout=60, max_paths=64, feas_timeout=5))
    return out
