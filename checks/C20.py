"""C20 - every named window is a well-formed taper of the requested length."""
import math
import sys as _sys

import numpy as np

from symx.run import Case
from symx.number import SymBool, Sym, ctx, as_sym, _q
from .common import sp

ID = "C20"
EXPLANATION = ("(a) index-generic, ANY length: the element-wise window generators are executed once with a symbolic length N and a "
               "symbolic sample index (arange / linspace become the generic element i, resp. a + i(b-a)/(N-1); cos, sin, exp, sinc "
               "are uninterpreted functions with parity / periodicity / special-value axioms instantiated on the applications that occur, "
               "pi symbolic). z3 decides w(i) = w(N-1-i) for all real N >= 2, i; that no denominator can vanish for INTEGER N >= 2 and "
               "0 <= i <= N-1 (sat = a concrete (N, i), replayed); w((N-1)/2) = 1; and max <= 1 for the cosine-sum windows through "
               "multiple-angle identities. (b) the factory is explored over all 29 names x {no argument, every documented, one undocumented "
               "argument}: routing, aliases, rejection. (c) ENBW >= 1 for an ARBITRARY symbolic window (Cauchy-Schwarz) and Window.enbw / .N / .data agree with the factory. (d) a Window object holding ARBITRARY positive symbolic samples still reports the same samples, length and ENBW after every sequence of read operations (compute_response with and without normalisation, response, frequencies, enbw, mean_square).")
BOUNDS = {
    "quick": "(a) any N (index-generic) for rectangle, blackman, gaussian, cosine, lanczos, bartlett_hann, nuttall, blackman_nuttall, blackman_harris, bohman, "
             "flattop, riesz, riemann, poisson, cauchy; (b) all 29 names, N in {1, 2, 7, 8}; (c) arbitrary w of length <= 4 (ENBW), Window class N in {7, 8}; (d) n in {2, 3}, NFFT=4, all sequences of <= 2 read operations that start with compute_response",
    "thorough": "(b) N in 1..33 and 64, 127, 128, 512, 1001; (c) length <= 6; (d) n <= 4",
}
ASSUMPTIONS = ["floats modelled as exact reals; published window coefficients enter as exact rationals of their doubles",
               "cos/sin/exp/sinc uninterpreted with: cos even and 2pi-periodic, sin odd, sinc even, special values at multiples of pi/2, "
               "|cos|,|sin| <= 1, cos(k y) = T_k(cos y) (k = 2,3,4), exp monotone with exp(0)=1; pi symbolic in (3.14159265, 3.14159266)",
               "symmetry is posed over real N, i (stronger than integers); vanishing denominators over integers"]
OUTSIDE = ["the lazily computed response of a Window object (NFFT=2048) on symbolic samples - it is read at concrete samples for all 29 names in (b)",
           "sample values of the library-provided windows (bartlett, hamming, hann, kaiser, chebwin are numpy/scipy code) and of the generators that "
           "build their output with where/concatenate/loops over range(N) (tukey, parzen, taylor): only their routing, length and finiteness are checked, at concrete N",
           "max <= 1 for the non-polynomial windows (gaussian, poisson, cauchy, lanczos, bohman, riemann): monotonicity facts of exp/sinc beyond the axioms listed"]
BUDGET = {"quick": 900, "thorough": 3400}

GENERIC = ['rectangle', 'blackman', 'gaussian', 'cosine', 'lanczos', 'bartlett_hann', 'nuttall', 'blackman_nuttall',
           'blackman_harris', 'bohman', 'flattop', 'riesz', 'riemann', 'poisson', 'cauchy']
ALL_WINDOWS = ["bartlett_hann", "blackman_harris", "blackman_nuttall", "bohman", "blackman", "chebwin", "gaussian",
               "hamming", "kaiser", "lanczos", "sinc", "poisson", "tukey", "nuttall", "parzen", "flattop", "riesz",
               "riemann", "hann", "hanning", "poisson_hanning", "rectangular", "rectangle", "bartlett", "triangular",
               "cosine", "sine", "cauchy", "taylor"]
PARAMS = {"kaiser": {"beta": 5.0}, "blackman": {"alpha": 0.2}, "cauchy": {"alpha": 2.0}, "flattop": {"mode": "periodic"},
          "gaussian": {"alpha": 3.0}, "chebwin": {"attenuation": 60}, "tukey": {"r": 0.25}, "poisson": {"alpha": 1.5},
          "poisson_hanning": {"alpha": 1.0}, "taylor": {"nbar": 3, "sll": -35}}


# ---------------------------------------------------------------------------
class LazyVec(object):
    """a vector of symbolic length represented by its generic element"""

    def __array_ufunc__(self, ufunc, method, *inputs, **kw):
        # numpy ufuncs applied to the generic element (np.abs(x), np.cos(x), np.multiply(a, x) ...)
        if method != '__call__' or kw.get('out') is not None:
            return NotImplemented
        from symx import stubs_math
        els = [x.el if isinstance(x, LazyVec) else x for x in inputs]
        name = ufunc.__name__
        if name in ('absolute', 'fabs'):
            return LazyVec(abs(els[0]))
        if name == 'negative':
            return LazyVec(-els[0])
        if name == 'positive':
            return LazyVec(els[0])
        if name == 'square':
            return LazyVec(els[0] * els[0])
        if name in ('cos', 'sin', 'exp'):
            return LazyVec(stubs_math.apply(name, as_sym(els[0])))
        if name in ('add', 'subtract', 'multiply', 'true_divide', 'divide', 'power'):
            a, b = els
            if not isinstance(a, Sym) and not isinstance(b, Sym):
                return NotImplemented
            if name == 'power':
                return LazyVec(as_sym(a) ** b)
            a, b = as_sym(a), as_sym(b)
            return LazyVec({'add': a + b, 'subtract': a - b, 'multiply': a * b}.get(name) if name in ('add', 'subtract', 'multiply') else a / b)
        return NotImplemented

    def __init__(self, el):
        self.el = as_sym(el)

    def _o(self, o):
        return o.el if isinstance(o, LazyVec) else o

    def __add__(self, o):
        return LazyVec(self.el + self._o(o))
    __radd__ = __add__

    def __sub__(self, o):
        return LazyVec(self.el - self._o(o))

    def __rsub__(self, o):
        return LazyVec(self._o(o) - self.el)

    def __mul__(self, o):
        return LazyVec(self.el * self._o(o))
    __rmul__ = __mul__

    def __truediv__(self, o):
        return LazyVec(self.el / self._o(o))

    def __rtruediv__(self, o):
        return LazyVec(self._o(o) / self.el)

    def __pow__(self, e):
        return LazyVec(self.el ** e)

    def __neg__(self):
        return LazyVec(-self.el)

    def __abs__(self):
        return LazyVec(abs(self.el))


class Patches(object):
    """window-module names switched to the index-generic model for one run"""

    def __init__(self, N, index):
        self.N = N
        self.index = index
        self.W = _sys.modules['spectrum.window']
        self.saved = {}

    def __enter__(self):
        from symx import stubs_math
        from symx.loader import symbolic_pi, sym_float
        N, idx = self.N, self.index

        def uf(name):
            def f(x):
                if isinstance(x, LazyVec):
                    return LazyVec(stubs_math.apply(name, x.el))
                return stubs_math.apply(name, as_sym(x))
            return f

        def arange(a, b=None):
            if b is None:
                a, b = 0, a
            return LazyVec(idx + a)

        def linspace(a, b, n):
            return LazyVec(as_sym(a) + idx * (as_sym(b) - as_sym(a)) / (N - 1))

        def ones(n):
            return LazyVec(1)

        def array(v):
            return LazyVec(v[0])
        repl = dict(arange=arange, linspace=linspace, ones=ones, array=array, cos=uf('cos'), sin=uf('sin'), exp=uf('exp'),
                    sinc=uf('sinc'), pi=symbolic_pi(), float=sym_float)
        for k, v in repl.items():
            self.saved[k] = self.W.__dict__.get(k, _MISSING)
            self.W.__dict__[k] = v
        # the same names reached through `np.` / `numpy.` (a refactoring may switch spelling)
        shim = _NumpyShim({k: v for k, v in repl.items() if k != 'float'})
        for k, v in list(self.W.__dict__.items()):
            if v is np and k not in self.saved:
                self.saved[k] = v
                self.W.__dict__[k] = shim
        return self

    def __exit__(self, *a):
        for k, v in self.saved.items():
            if v is _MISSING:
                self.W.__dict__.pop(k, None)
            else:
                self.W.__dict__[k] = v


_MISSING = object()


class _NumpyShim(object):
    def __init__(self, repl):
        self._repl = repl

    def __getattr__(self, name):
        r = self.__dict__['_repl']
        if name in r:
            return r[name]
        return getattr(np, name)


def generic_element(h, name, N, index, **kw):
    """run the real generator with symbolic N; returns the element at `index` (a Sym)"""
    W = _sys.modules['spectrum.window']
    f = getattr(W, W.window_names[name])
    with Patches(N, index):
        out = f(N, **kw)
    if not isinstance(out, LazyVec):
        raise RuntimeError("generator did not stay element-wise")
    return out.el


def add_uf_axioms(h):
    """parity / periodicity / special values / multiple angles on the recorded applications"""
    c = ctx()
    pi = getattr(c, '_pi', None)
    apps = {}
    for (fn, _k), (val, arg) in c.uf_apps.items():
        apps.setdefault(fn, []).append((val, arg))

    def same(a, b):
        d = a - b
        return d.re.is_zero() and d.im.is_zero()
    # functional consistency: equal arguments give equal values
    for fn, L in apps.items():
        for i in range(len(L)):
            for j in range(i + 1, len(L)):
                c.axioms.append(SymBool.any([L[i][1] != L[j][1], L[i][0] == L[j][0]]))
    for fn in ('cos', 'sin', 'sinc', 'exp'):
        L = apps.get(fn, [])
        for i in range(len(L)):
            v1, a1 = L[i]
            # special values
            if pi is not None and fn in ('cos', 'sin'):
                for m in range(-8, 9):
                    if same(a1 * 2, pi * m):
                        val = {0: 1, 1: 0, 2: -1, 3: 0}[m % 4] if fn == 'cos' else {0: 0, 1: 1, 2: 0, 3: -1}[m % 4]
                        c.axioms.append(v1 == val)
            if fn in ('sinc',) and a1.re.is_zero():
                c.axioms.append(v1 == 1)
            if fn == 'exp' and a1.re.is_zero():
                c.axioms.append(v1 == 1)
            for j in range(i + 1, len(L)):
                v2, a2 = L[j]
                if fn == 'sinc' and same(a1 + a2, as_sym(0)):
                    c.axioms.append(v1 == v2)
                if pi is None:
                    continue
                for m in range(-6, 7):
                    if fn == 'cos' and (same(a1 + a2, pi * (2 * m)) or same(a1 - a2, pi * (2 * m))):
                        c.axioms.append(v1 == v2)
                    if fn == 'cos' and (same(a1 + a2, pi * (2 * m + 1)) or same(a1 - a2, pi * (2 * m + 1))):
                        c.axioms.append(v1 == -v2)
                    if fn == 'sin' and same(a1 + a2, pi * (2 * m)):
                        c.axioms.append(v1 == -v2)
                    if fn == 'sin' and (same(a1 + a2, pi * (2 * m + 1)) or same(a1 - a2, pi * (2 * m))):
                        c.axioms.append(v1 == v2)
                # multiple angles cos(k y) = T_k(cos y)
                if fn == 'cos':
                    for (va, aa, vb, ab) in ((v1, a1, v2, a2), (v2, a2, v1, a1)):
                        for k, T in ((2, lambda t: 2 * t * t - 1), (3, lambda t: 4 * t * t * t - 3 * t),
                                     (4, lambda t: 8 * t * t * t * t - 8 * t * t + 1)):
                            if same(ab, aa * k):
                                c.axioms.append(vb == T(va))


def gen_kw(name):
    return {}


def concrete_window(h, name):
    """replay mode: the real generator at the integer length closest to the model's N"""
    N = max(2, int(round(h.real('N', lo=2))))
    W = _sys.modules['spectrum.window']
    return N, np.asarray(getattr(W, W.window_names[name])(N), dtype=float)


def case_symmetry(h, name):
    if not h.is_sym():
        N, w = concrete_window(h, name)
        h.checked.append("w[i] = w[N-1-i] for every N, i")
        if not np.allclose(w, w[::-1], rtol=1e-9, atol=1e-12, equal_nan=True):
            h.fails.append(("w[i] = w[N-1-i] for every N, i", "window_%s(%d) = %r" % (name, N, list(w))))
        return
    N = h.real('N', lo=2)
    i = h.real('i')
    h.assume(i >= 0)
    h.assume(i <= N - 1)
    ctx().symbolic_pi = True
    a = generic_element(h, name, N, i)
    b = generic_element(h, name, N, N - 1 - i)
    add_uf_axioms(h)
    h.claim_eq("w[i] = w[N-1-i] for every N, i", a, b)


def case_centre(h, name):
    """for odd N the centre sample is 1 (posed at the real index (N-1)/2)"""
    if not h.is_sym():
        N, w = concrete_window(h, name)
        if N % 2 == 0:
            N += 1
            W = _sys.modules['spectrum.window']
            w = np.asarray(getattr(W, W.window_names[name])(N), dtype=float)
        h.checked.append("w[(N-1)/2] = 1")
        if not abs(w[(N - 1) // 2] - 1) <= 1e-6:
            h.fails.append(("w[(N-1)/2] = 1", "window_%s(%d)[%d] = %r" % (name, N, (N - 1) // 2, w[(N - 1) // 2])))
        return
    N = h.real('N', lo=3)
    ctx().symbolic_pi = True
    a = generic_element(h, name, N, (N - 1) / 2)
    add_uf_axioms(h)
    # "= 1 up to the rounding of the published coefficients"
    h.claim_true("w[(N-1)/2] = 1", (a <= 1 + 1e-6) & (a >= 1 - 1e-6))


def case_max(h, name):
    """w[i] <= 1 (+1e-6 for the rounding of the published coefficients) for the cosine-sum windows"""
    if not h.is_sym():
        N, w = concrete_window(h, name)
        h.checked.append("w[i] <= 1 + 1e-6")
        if not np.nanmax(w) <= 1 + 1e-6:
            h.fails.append(("w[i] <= 1 + 1e-6", "max window_%s(%d) = %r" % (name, N, np.nanmax(w))))
        return
    N = h.real('N', lo=2)
    i = h.real('i')
    h.assume(i >= 0)
    h.assume(i <= N - 1)
    ctx().symbolic_pi = True
    a = generic_element(h, name, N, i)
    add_uf_axioms(h)
    h.claim_le("w[i] <= 1 + 1e-6", a, 1 + 1e-6)


def case_denominators(h, name):
    """can a divisor of the generator vanish at an integer length N >= 2 and an integer index 0 <= i <= N-1 ?
    posed directly (no 'atoms are non-zero' assumption); a model is replayed on the float code at that N"""
    if h.is_sym():
        N = Sym.real_var('N', kind='input', integer=True)
        i = Sym.real_var('i', kind='input', integer=True)
        c = ctx()
        c.assume(N >= 2)
        c.assume(i >= 0)
        c.assume(i <= N - 1)
        c.symbolic_pi = True
        before = len(c.side)
        generic_element(h, name, N, i)
        divisors = [p for (_t, p) in c.side[before:]]
        h.note("divisors: %d" % len(divisors))
        from symx.poly import Q
        seen = set()
        for n_, p in enumerate(divisors):
            if p in seen:
                continue
            seen.add(p)
            h.claim_true("divisor %d cannot vanish" % n_, SymBool('cmp', '!=', Q.make(p)), note="no-atoms")
        if not divisors:
            h.claim_true("no divisions at all", True)
    else:
        N = int(round(h.real('N', lo=2)))
        i = int(round(h.real('i')))
        W = _sys.modules['spectrum.window']
        w = getattr(W, W.window_names[name])(N)
        ok = bool(np.all(np.isfinite(np.asarray(w, dtype=float))))
        for n_ in range(8):
            h.checked.append("divisor %d cannot vanish" % n_)
            if not ok:
                h.fails.append(("divisor %d cannot vanish" % n_, "window_%s(%d) has non-finite samples: %r" % (name, N, list(w))))


def case_factory(h, name, N):
    """routing, aliases, documented / undocumented parameters, Window object (concrete N; every sample finite and real)"""
    S = sp()
    W = _sys.modules['spectrum.window']
    f = getattr(W, W.window_names[name])
    w = S.create_window(N, name)
    direct = f(N)
    if len(w) != N:
        h.fail("len", "create_window(%d, %s) has %d samples" % (N, name, len(w)))
        return
    h.claim_true("factory = generator", bool(np.all(np.asarray(w) == np.asarray(direct)) or (not np.all(np.isfinite(direct)))))
    if not np.all(np.isfinite(np.asarray(w, dtype=float))):
        h.fail("finite", "window %s N=%d has non-finite samples %r" % (name, N, list(np.asarray(w, dtype=float))))
    if np.iscomplexobj(w):
        h.fail("real", "complex samples")
    # aliases
    for other, fn in W.window_names.items():
        if fn == W.window_names[name] and other != name:
            w2 = S.create_window(N, other)
            h.claim_true("alias %s identical" % other, bool(np.array_equal(np.asarray(w), np.asarray(w2), equal_nan=True)))
    # parameters
    if name in PARAMS:
        kw = PARAMS[name]
        if name == 'taylor':
            pass        # see known finding: the factory's table for taylor
        try:
            w3 = S.create_window(N, name, **kw)
            d3 = f(N, **kw)
            h.claim_true("documented parameters forwarded unchanged", bool(np.array_equal(np.asarray(w3), np.asarray(d3), equal_nan=True)))
        except Exception as e:
            h.fail("documented parameter rejected", "%s: %s" % (type(e).__name__, str(e)[:80]))
    try:
        S.create_window(N, name, bogus_parameter=1)
        h.fail("undocumented parameter accepted")
    except ValueError:
        pass
    # Window object
    obj = S.Window(N, name)
    h.claim_true("Window.N", obj.N == N)
    h.claim_true("Window.data = factory", bool(np.array_equal(np.asarray(obj.data), np.asarray(w), equal_nan=True)))
    if np.all(np.isfinite(np.asarray(w, dtype=float))) and float(np.sum(w)) != 0:
        # reading the (lazily computed) response, the axis and the derived quantities leaves the samples alone
        _ = obj.response
        _ = obj.frequencies
        _ = obj.mean_square
        obj.compute_response(NFFT=64, norm=True)
        h.claim_true("Window.data = factory after reading response / frequencies / mean_square",
                     bool(np.array_equal(np.asarray(obj.data), np.asarray(w), equal_nan=True)) and obj.N == N)
    if np.all(np.isfinite(np.asarray(w, dtype=float))) and float(np.sum(w)) != 0:
        ww = np.asarray(w, dtype=float)
        h.claim_true("Window.enbw = N sum w^2/(sum w)^2", bool(abs(obj.enbw - N * float(np.sum(ww ** 2)) / float(np.sum(ww)) ** 2) <= 1e-9 * abs(obj.enbw)))
        if N >= 3:
            h.claim_true("enbw >= 1", bool(obj.enbw >= 1 - 1e-12))
        h.claim_true("max <= 1", bool(float(np.max(ww)) <= 1 + 1e-6))
        h.claim_true("symmetric", bool(np.allclose(ww, ww[::-1], rtol=1e-9, atol=1e-12)))
        if N % 2 == 1 and N >= 3:
            h.claim_true("centre = 1", bool(abs(ww[(N - 1) // 2] - 1.0) <= 1e-6))


def case_enbw(h, n):
    """ENBW >= 1 for an arbitrary real window with non-zero sum (Cauchy-Schwarz), through the real enbw()"""
    S = sp()
    w = h.real_vec('w', n)
    tot = 0
    for k in range(n):
        tot = tot + w[k]
    h.assume(tot != 0, "sum w != 0")
    W = _sys.modules['spectrum.window']
    if h.is_sym():
        # enbw lives in the window module, which is not switched to symbolic mode: give it a symbolic-aware numpy
        from symx.loader import NumpyProxy
        saved = W.np
        W.np = NumpyProxy()
        try:
            e = W.enbw(w)
        finally:
            W.np = saved
    else:
        e = W.enbw(w)
    sq = 0
    for k in range(n):
        sq = sq + w[k] * w[k]
    h.claim_eq("enbw = N sum w^2/(sum w)^2", e * tot * tot, n * sq)
    h.claim_le("enbw >= 1", 1, e)


WOPS = ('compute(norm=True)', 'compute(norm=False)', 'response', 'frequencies', 'enbw', 'mean_square')


def case_window_reads(h, n, seq):
    """a Window object keeps reporting the same samples / length / ENBW whatever is read from it, in any order:
    ARBITRARY positive samples are injected (private attribute), the read-only operations are run on them"""
    S = sp()
    W = _sys.modules['spectrum.window']
    obj = S.Window(n, 'hamming')
    w = h.real_vec('w', n)
    for i in range(n):
        h.assume(w[i] > 0, "w>0")
    pristine = [w[i] for i in range(n)]
    obj._Window__data = w
    e0 = obj.enbw
    saved = W.np
    if h.is_sym():
        from symx.loader import NumpyProxy
        W.np = NumpyProxy()
    try:
        for op in seq:
            if op == 'compute(norm=True)':
                obj.compute_response(NFFT=4, norm=True)
            elif op == 'compute(norm=False)':
                obj.compute_response(NFFT=4, norm=False)
            elif op == 'response':
                if obj._Window__response is None:
                    return          # the lazy default (NFFT=2048) is outside the symbolic bound
                _ = obj.response
            elif op == 'frequencies':
                if obj._Window__response is None:
                    return
                _ = obj.frequencies
            elif op == 'enbw':
                _ = obj.enbw
            elif op == 'mean_square':
                _ = obj.mean_square
    finally:
        W.np = saved
    d = obj.data
    if len(d) != n or obj.N != n:
        h.fail("Window length", "len(data)=%d N=%r after %s" % (len(d), obj.N, seq))
        return
    for i in range(n):
        h.claim_eq("data[%d] unchanged after %s" % (i, ">".join(seq)), d[i], pristine[i])
    h.claim_eq("enbw unchanged", obj.enbw, e0)


def cases(tier, seed):
    q = tier == 'quick'
    out = []
    for name in GENERIC:
        out.append(Case("symmetry:any-N:%s" % name, case_symmetry, dict(name=name), timeout=60 if q else 300, max_paths=8, feas_timeout=3))
        out.append(Case("denominators:any-N:%s" % name, case_denominators, dict(name=name), timeout=60 if q else 300, max_paths=8,
                        feas_timeout=3, max_replays=2))
        out.append(Case("centre:odd-N:%s" % name, case_centre, dict(name=name), timeout=60 if q else 300, max_paths=8, feas_timeout=3))
    for name in ('blackman', 'nuttall', 'blackman_nuttall', 'blackman_harris', 'cosine', 'riesz', 'bartlett_hann', 'rectangle'):
        out.append(Case("max<=1:any-N:%s" % name, case_max, dict(name=name), timeout=120 if q else 600, max_paths=8, feas_timeout=3))
    for name in ALL_WINDOWS:
        for N in ((1, 2, 7, 8) if q else list(range(1, 34)) + [64, 127, 128, 512, 1001]):
            out.append(Case("factory:%s:N=%d" % (name, N), case_factory, dict(name=name, N=N), timeout=30))
    for n in ((1, 2, 3, 4) if q else (1, 2, 3, 4, 5, 6)):
        out.append(Case("enbw:arbitrary-window:n=%d" % n, case_enbw, dict(n=n), timeout=120 if q else 900, feas_timeout=3))
    import itertools
    for n in ((2, 3) if q else (2, 3, 4)):
        for ln in (1, 2):
            for seq in itertools.product(WOPS, repeat=ln):
                if not seq[0].startswith('compute'):
                    continue        # the lazily computed response uses NFFT=2048: outside the symbolic bound
                out.append(Case("window-object-reads:n=%d:%s" % (n, ">".join(seq)), case_window_reads, dict(n=n, seq=list(seq)),
                                timeout=60 if q else 300, max_paths=24, feas_timeout=3, max_decisions=24))
    return out
