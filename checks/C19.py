"""C19 - multitaper estimates are weighted means of tapered periodograms."""
import ast
import sys as _sys

import numpy as np

from symx.run import Case
from symx.paths import REPO_PKG
from symx.number import SymBool, Sym, ctx, set_ctx, as_sym
from .common import sp, conj, abs2
from . import zoo

ID = "C19"
EXPLANATION = ("pmtm and MultiTapering are executed on symbolic data with tapers and eigenvalues passed in. z3 decides: every "
               "eigenspectrum equals the NFFT-point DFT of taper*data; weights are 1 / eigenvalue/(index+1) for unity / eigen; the class "
               "PSD is the mean over tapers of weight*|eigenspectrum|^2, doubled and folded for real data, real and non-negative for real AND "
               "complex data. For 'adapt' the loop body of the current source is extracted (ast) and run once from an ARBITRARY "
               "non-negative spectrum: the new weights equal Thomson's formula, lie in [0, 1/eigenvalue] and the new spectrum is again "
               "non-negative (inductive invariant, any number of iterations); the whole function is run with symbolic eigenvalues and "
               "pinned data, where the returned weights must be real and within the range. Internal dpss tapers (C code, called concretely) "
               "vs the same tapers passed in give the same result.")
BOUNDS = {
    "quick": "unity/eigen: N=3, NFFT in {3,4,5}, 2 tapers, real and complex, function and class; adapt one-step: NFFT=2, 2 tapers, symbolic "
             "S, Sk, eigenvalues, sigma^2; adapt whole function: N=3, NFFT=4, data pinned, eigenvalues symbolic, <= 3 iterations; dpss: N=8, NW=2, k=2, NFFT=8 (unity)",
    "thorough": "adds N=4, NFFT up to 8, NFFT=3 for the one-step lemma (2 tapers), dpss N=9 / NW=2.5, own-taper recompute on complex data",
}
ASSUMPTIONS = ["floats modelled as exact reals", "fft = DFT definition", "dpss (C routine) is executed concretely; its output enters as constants",
               "adapt lemma: eigenvalues in (0,1], sigma^2 > 0, incoming spectrum and eigenspectra >= 0 and not all zero",
               "adapt whole function: data and tapers pinned to dyadic constants, eigenvalues symbolic in (1/2, 1)"]
OUTSIDE = ["the value the adaptive iteration converges to for symbolic data (expression swell after the first iteration)",
           "data lengths 16..1024 of the property text", "paths of the adaptive loop beyond the iteration cap are cut and counted"]
BUDGET = {"quick": 900, "thorough": 3400}


def tapers(h, N, k=2):
    return zoo.tapers_const(h, N, k)


def dft_bin(h, vals, n, k):
    if h.is_sym():
        from symx import stubs
        tw = stubs.twiddles(n)
        acc = 0
        for m in range(len(vals)):
            acc = acc + vals[m] * tw(k * m)
        return acc
    acc = 0j
    for m in range(len(vals)):
        acc += complex(vals[m]) * np.exp(-2j * np.pi * k * m / n)
    return acc


def case_pmtm(h, method, cplx, N, n):
    S = sp()
    x = h.vec('x', N, cplx)
    t, lam = tapers(h, N)
    t_in, lam_in = t.copy(), lam.copy()            # the arrays handed to the code; t, lam stay pristine for the oracle
    Sk, w, ev = S.pmtm(x, e=lam_in, v=t_in, NFFT=n, method=method, show=False)
    h.claim_true("caller's eigenvalue array not modified", bool(np.array_equal(lam_in, lam)))
    h.claim_true("caller's taper array not modified", bool(np.array_equal(t_in, t)))
    Sk = np.asarray(Sk, dtype=object) if h.is_sym() else np.asarray(Sk)
    nw = len(lam)
    if tuple(Sk.shape) != (nw, n):
        h.fail("Sk shape", "%r" % (tuple(Sk.shape),))
        return
    for i in range(nw):
        for k in range(n):
            h.claim_eq("Sk[%d,%d] = DFT(taper*x)" % (i, k), Sk[i, k], dft_bin(h, [float(t[m, i]) * x[m] for m in range(N)], n, k))
    wv = np.asarray(w, dtype=object).ravel() if h.is_sym() else np.asarray(w).ravel()
    if len(wv) != nw:
        h.fail("weights shape", "len %d" % len(wv))
        return
    for i in range(nw):
        h.claim_eq("weight[%d]" % i, wv[i], 1 if method == 'unity' else float(lam[i]) / (i + 1))
        h.claim_eq("eigenvalue[%d]" % i, ev[i], float(lam[i]))


def case_class(h, method, cplx, N, n):
    S = sp()
    x = h.vec('x', N, cplx)
    t, lam = tapers(h, N)
    t_in, lam_in = t.copy(), lam.copy()
    p = S.MultiTapering(x, NFFT=n, e=lam_in, v=t_in, method=method, scale_by_freq=False)
    psd = p.psd
    _ = p()                                           # a second evaluation of the same object must give the same estimate
    psd2 = p.psd
    if len(psd2) == len(psd):
        for k in range(len(psd)):
            h.claim_eq("second evaluation psd[%d]" % k, psd2[k], psd[k])
    ev = p.eigenvalues
    for i in range(len(lam)):
        h.claim_eq("exposed eigenvalue[%d]" % i, ev[i], float(lam[i]))
    h.claim_true("caller's eigenvalue array not modified", bool(np.array_equal(lam_in, lam)))
    L = zoo.expected_len(n, cplx)
    if len(psd) != L:
        h.fail("len", "len %d expected %d" % (len(psd), L))
        return
    nw = len(lam)
    for k in range(L):
        acc = 0
        acc_sq = 0
        for i in range(nw):
            wgt = 1 if method == 'unity' else float(lam[i]) / (i + 1)
            d = dft_bin(h, [float(t[m, i]) * x[m] for m in range(N)], n, k)
            acc = acc + wgt * abs2(d)
            acc_sq = acc_sq + wgt * abs2(h.let("E%d_%d" % (i, k), d))
        fold = 1 if cplx else 2
        h.claim_eq("psd[%d] = %d*mean_i w_i|Sk_i|^2" % (k, fold), psd[k] * nw, fold * acc)
        h.claim_real("psd[%d] real" % k, psd[k])
        h.claim_le("weighted sum of squares >= 0 [%d]" % k, 0, acc_sq)


# ---------------------------------------------------------------------------
def extract_adapt_body():
    """source of the body of the `while` loop of pmtm's adaptive branch, from the CURRENT file"""
    fn = REPO_PKG + "/mtm.py"
    src = open(fn).read()
    tree = ast.parse(src)
    for node in ast.walk(tree):
        if isinstance(node, ast.FunctionDef) and node.name == 'pmtm':
            for sub in ast.walk(node):
                if isinstance(sub, ast.While):
                    names = {n.id for n in ast.walk(sub) if isinstance(n, ast.Name)}
                    if {'wk', 'S1', 'Sk', 'eigenvalues'} <= names:
                        mod = ast.Module(body=sub.body, type_ignores=[])
                        return compile(ast.fix_missing_locations(mod), fn, 'exec')
    return None


def extract_assign(name):
    """the statement `name = ...` inside pmtm, from the CURRENT source"""
    fn = REPO_PKG + "/mtm.py"
    tree = ast.parse(open(fn).read())
    for node in ast.walk(tree):
        if isinstance(node, ast.FunctionDef) and node.name == 'pmtm':
            for sub in ast.walk(node):
                if isinstance(sub, ast.Assign) and len(sub.targets) == 1 and isinstance(sub.targets[0], ast.Name) \
                        and sub.targets[0].id == name:
                    return compile(ast.fix_missing_locations(ast.Module(body=[sub], type_ignores=[])), fn, 'exec')
    return None


def case_adapt_sig2(h, N, cplx):
    """the data power that drives the adaptive weights is mean |x|^2 (statement taken from the current source)"""
    code = extract_assign('sig2')
    if code is None:
        h.fail("statement `sig2 = ...` not found in pmtm (source shape changed)")
        return
    MT = _sys.modules['spectrum.mtm']
    x = h.vec('x', N, cplx)
    env = dict(MT.__dict__)
    env.update(dict(x=x, N=N))
    if not h.is_sym():
        env['np'] = np
    exec(code, env)
    sig2 = env['sig2']
    acc = 0
    for m in range(N):
        acc = acc + abs2(x[m])
    h.claim_eq("sig2 = mean |x|^2", sig2, acc / N)
    h.claim_real("sig2 real", sig2)


def case_adapt_step(h, n, nw):
    """one iteration of the adaptive loop from an arbitrary state"""
    code = extract_adapt_body()
    if code is None:
        h.note("adaptive loop body not found in the current source: inductive extension unavailable")
        h.fail("adapt loop body not found (source shape changed); inductive step unavailable")
        return
    MT = _sys.modules['spectrum.mtm']
    lam = [h.real("lam%d" % i, positive=True) for i in range(nw)]
    for l in lam:
        h.assume(l <= 1, "eigenvalue <= 1")
    sig2 = h.real('sig2', positive=True)
    Svals = [h.real("S%d" % f) for f in range(n)]
    Skv = [[h.real("Sk%d_%d" % (f, i)) for i in range(nw)] for f in range(n)]
    for f in range(n):
        h.assume(Svals[f] >= 0, "S >= 0")
        h.assume(Svals[f] > 0, "S > 0 (not identically zero)")
        for i in range(nw):
            h.assume(Skv[f][i] >= 0, "Sk >= 0")
        h.assume(sum(Skv[f][1:], Skv[f][0]) > 0, "eigenspectra not all zero at a frequency")
    if h.is_sym():
        from symx.array import SymArray
        mk = lambda v: SymArray.make(v)
        npx = MT.np
    else:
        mk = lambda v: np.array(v, dtype=float)
        npx = np
    eig = mk(lam)
    env = dict(MT.__dict__)
    env.update(dict(S=mk([[v] for v in Svals]), Sk=mk(Skv), eigenvalues=eig, NFFT=n, nwin=nw, i=0,
                    a=mk([sig2 * (1 - l) for l in lam]), S1=mk([[0.0]] * n), np=npx, sum=sum))
    exec(code, env)
    wk = env['wk']
    Snew = env['S']            # the body ends by swapping S and S1
    for f in range(n):
        for i in range(nw):
            b = Svals[f] / (lam[i] * Svals[f] + sig2 * (1 - lam[i]))
            h.claim_eq("wk[%d,%d] = lam*(S/(lam*S+sig2*(1-lam)))^2" % (f, i), wk[f, i], lam[i] * b * b)
            h.claim_le("wk[%d,%d] >= 0" % (f, i), 0, wk[f, i])
            h.claim_le("wk[%d,%d] <= 1/lam" % (f, i), wk[f, i] * lam[i], 1)
        h.claim_le("new spectrum >= 0 [%d]" % f, 0, Snew[f, 0])
        num = 0
        den = 0
        for i in range(nw):
            num = num + wk[f, i] * Skv[f][i]
            den = den + wk[f, i]
        h.claim_eq("new spectrum = weighted mean of eigenspectra [%d]" % f, Snew[f, 0] * den, num)


def case_adapt_whole(h, cplx, N, n, iters):
    """whole function, data pinned, eigenvalues symbolic: returned weights real and inside [0, 1/eigenvalue]"""
    S = sp()
    x = h.mixed_vec('x', N, cplx, 0)
    t, _ = tapers(h, N)
    lam = [h.real("lam%d" % i, lo=0.5, hi=1.0) for i in range(2)]
    if h.is_sym():
        from symx.array import SymArray
        ev = SymArray.make(lam)
    else:
        ev = np.array(lam)
    dec0 = len(ctx().decisions) if h.is_sym() else 0
    Sk, w, ev2 = S.pmtm(x, e=ev, v=t, NFFT=n, method='adapt', show=False)
    w = np.asarray(w, dtype=object) if h.is_sym() else np.asarray(w)
    if tuple(w.shape) != (n, 2):
        h.fail("weights shape", "%r" % (tuple(w.shape),))
        return
    # independent Thomson iteration in the harness (sigma^2 = mean |x|^2, same stopping rule): the returned weights are its weights
    sig2 = 0
    for m in range(N):
        sig2 = sig2 + abs2(x[m])
    sig2 = sig2 / N
    E = [[abs2(dft_bin(h, [float(t[m, i]) * x[m] for m in range(N)], n, f)) for i in range(2)] for f in range(n)]
    Scur = [(E[f][0] + E[f][1]) / 2 for f in range(n)]
    Sprev = [0] * n
    tol = 0.0005 * sig2 / n
    wk = [[lam[i] for i in range(2)] for f in range(n)]
    it = 0
    recorded = [taken for taken, _c in ctx().decisions[dec0:]] if h.is_sym() else []
    while it < 100:
        if h.is_sym():
            # same stopping rule; where the comparison is symbolic, follow the decision the code took on this path
            dist = 0
            for f in range(n):
                dist = dist + abs(as_sym(Scur[f] - Sprev[f]))
            cond = (dist / n > tol)
            if isinstance(cond, SymBool) and not cond.is_const():
                if not recorded:
                    break
                go = recorded.pop(0)
            else:
                go = cond.const_value() if isinstance(cond, SymBool) else bool(cond)
            if not go:
                break
        else:
            dist = 0
            for f in range(n):
                dist = dist + abs(float(np.real(Scur[f] - Sprev[f])))
            if not (dist / n > float(np.real(tol))):
                break
        it += 1
        Snew = []
        for f in range(n):
            num = 0
            den = 0
            for i in range(2):
                b = Scur[f] / (Scur[f] * lam[i] + sig2 * (1 - lam[i]))
                wk[f][i] = b * b * lam[i]
                num = num + wk[f][i] * E[f][i]
                den = den + wk[f][i]
            Snew.append(num / den)
        Sprev, Scur = Scur, Snew
    for f in range(n):
        for i in range(2):
            h.claim_eq("weight[%d,%d] = Thomson weight with sigma^2 = mean|x|^2" % (f, i), w[f, i], wk[f][i])
    for f in range(n):
        for i in range(2):
            h.claim_real("weight[%d,%d] real" % (f, i), w[f, i])
            h.claim_le("weight[%d,%d] >= 0" % (f, i), 0, w[f, i].real)
            if not cplx:
                # (for complex data this bound is decided through the one-step lemma only: the direct query does not terminate)
                h.claim_le("weight[%d,%d] <= 1/eigenvalue" % (f, i), (w[f, i] * lam[i]).real, 1)


def case_dpss_internal(h, N, NW, k, n, cplx):
    """tapers computed internally by dpss == the same tapers passed in"""
    S = sp()
    MT = _sys.modules['spectrum.mtm']
    saved = ctx() if h.is_sym() else None
    if h.is_sym():
        set_ctx(None)                 # the C routine runs on plain numpy arrays
    try:
        tp, ev = MT.dpss(N, NW, k)
    finally:
        if h.is_sym():
            set_ctx(saved)
    x = h.vec('x', N, cplx)
    orig = MT.dpss
    if h.is_sym():
        def concrete_dpss(*a, **kw):
            c0 = ctx()
            set_ctx(None)
            try:
                return orig(*a, **kw)
            finally:
                set_ctx(c0)
        MT.dpss = concrete_dpss
    try:
        r1 = S.pmtm(x, NW=NW, k=k, NFFT=n, method='unity', show=False)
    finally:
        MT.dpss = orig
    r2 = S.pmtm(x, e=ev, v=tp, NFFT=n, method='unity', show=False)
    a, b = np.asarray(r1[0], dtype=object), np.asarray(r2[0], dtype=object)
    if a.shape != b.shape:
        h.fail("shape", "%r vs %r" % (a.shape, b.shape))
        return
    for i in range(a.shape[0]):
        for f in range(a.shape[1]):
            h.claim_eq("Sk[%d,%d] internal = passed-in" % (i, f), a[i, f], b[i, f])
    for i in range(len(ev)):
        h.claim_eq("eigenvalue[%d]" % i, r1[2][i], r2[2][i])


def case_mt_recompute(h, N, n, cplx, change):
    """a MultiTapering object that computes its own Slepian tapers: estimate, change NW / k, call again: the second
    estimate, its weights and eigenvalues are those of a fresh object with the new parameters (C routine run concretely)"""
    S = sp()
    MT = _sys.modules['spectrum.mtm']
    x = h.vec('x', N, cplx)
    orig = MT.dpss
    if h.is_sym():
        def concrete_dpss(*a, **kw):
            c0 = ctx()
            set_ctx(None)
            try:
                return orig(*a, **kw)
            finally:
                set_ctx(c0)
        MT.dpss = concrete_dpss
    try:
        p = S.MultiTapering(x, NW=2, k=2, NFFT=n, method='unity', scale_by_freq=False)
        p()
        NW2, k2 = (2, 3) if change == 'k' else ((2.5, 2) if change == 'NW' else (2.5, 3))
        p.NW, p.k = NW2, k2
        p()
        got = p.psd
        f = S.MultiTapering(x, NW=NW2, k=k2, NFFT=n, method='unity', scale_by_freq=False)
        f()
        expect = f.psd
    finally:
        MT.dpss = orig
    if len(got) != len(expect):
        h.fail("len", "%d vs %d" % (len(got), len(expect)))
        return
    for j in range(len(got)):
        h.claim_eq("psd[%d] after the change = fresh object" % j, got[j], expect[j])
    if len(p.eigenvalues) != len(f.eigenvalues):
        h.fail("eigenvalues", "%d eigenvalues, fresh object has %d" % (len(p.eigenvalues), len(f.eigenvalues)))
        return
    for i in range(len(f.eigenvalues)):
        h.claim_eq("eigenvalue[%d] = fresh" % i, p.eigenvalues[i], f.eigenvalues[i])


def cases(tier, seed):
    q = tier == 'quick'
    out = []
    for change in ('k', 'NW', 'both'):
        for cplx in ((False,) if q else (False, True)):
            out.append(Case("class:own-tapers:recompute-after-%s-change:%s:N=8:NFFT=8" % (change, 'cx' if cplx else 're'), case_mt_recompute,
                            dict(N=8, n=8, cplx=cplx, change=change), timeout=120 if q else 600, max_paths=16, feas_timeout=3,
                            wall=500 if q else 2400))
    T = dict(timeout=120 if q else 600, max_paths=16, feas_timeout=3, wall=500 if q else 2400)
    for method in ('unity', 'eigen'):
        for cplx in (False, True):
            for N, n in ([(3, 3), (3, 4), (3, 5)] if q else [(3, 3), (3, 4), (3, 5), (4, 4), (4, 6), (4, 8)]):
                tag = "%s:%s:N=%d:NFFT=%d" % (method, 'cx' if cplx else 're', N, n)
                out.append(Case("pmtm:" + tag, case_pmtm, dict(method=method, cplx=cplx, N=N, n=n), **T))
                out.append(Case("class:" + tag, case_class, dict(method=method, cplx=cplx, N=N, n=n), **T))
    for n, nw in ([(1, 2), (2, 2)] if q else [(1, 2), (2, 2), (3, 2)]):     # 3 tapers: the positivity of the new spectrum does not decide within 900 s
        out.append(Case("adapt:one-step:NFFT=%d:tapers=%d" % (n, nw), case_adapt_step, dict(n=n, nw=nw),
                        timeout=120 if q else 900, max_paths=4, feas_timeout=3, wall=600 if q else 2400))
    for cplx in (False, True):
        for N in ((2, 3) if q else (2, 3, 4, 5)):
            out.append(Case("adapt:data-power:%s:N=%d" % ('cx' if cplx else 're', N), case_adapt_sig2, dict(N=N, cplx=cplx), **T))
    for cplx in (False, True):
        out.append(Case("adapt:whole:%s:N=3:NFFT=4" % ('cx' if cplx else 're'), case_adapt_whole,
                        dict(cplx=cplx, N=3, n=4, iters=3), timeout=120 if q else 600, max_paths=8, feas_timeout=3,
                        max_decisions=2, wall=500 if q else 900))        # a third symbolic loop decision does not decide within budget
    out.append(Case("dpss:internal-vs-passed:re:N=8:NW=2:k=2:NFFT=8", case_dpss_internal, dict(N=8, NW=2, k=2, n=8, cplx=False), **T))
    if not q:
        out.append(Case("dpss:internal-vs-passed:cx:N=9:NW=2.5:k=3:NFFT=9", case_dpss_internal, dict(N=9, NW=2.5, k=3, n=9, cplx=True), **T))
    return out
