"""C18 - Slepian tapers: what the Python half of dpss() contributes (the C routine is a stated contract stub)."""
import ctypes
import math
import sys as _sys

import numpy as np

from symx.run import Case
from symx.number import Sym, SymBool, ctx
from .common import sp

ID = "C18"
LEVEL_TEXT = ("PARTIAL: only the clauses produced by the Python code of dpss() are decided - 1/sqrt(N) normalisation, sign convention, "
              "layout (N x k, taper i in column i) and the concentration-ratio formula; the clauses that are the substance of the C routine "
              "multitap (the columns ARE the leading eigenvectors of the sinc kernel, ratios ordered and in (0,1]) are outside solver-based "
              "checking and are NOT claimed. ")
EXPLANATION = (LEVEL_TEXT + "dpss() is executed with the ctypes call replaced by a stub that fills the output buffers with ARBITRARY symbolic "
               "tapers satisfying only what mydpss.c lines 193-215 establish (rms of every taper = 1, tapsum = sum of the normalised taper) plus "
               "orthogonality of distinct eigenvectors. z3 decides, for every such C output: the result is N x k with column i = +-taper_i/sqrt(N) "
               "(hence orthonormal columns, symmetry class preserved), even-index columns have positive sum and odd-index columns a positive first "
               "sample, and the returned eigenvalue i equals the quadratic form h_i^T K h_i of the sinc concentration kernel K[n,m] = "
               "sin(2 pi W (n-m))/(pi (n-m)), W = NW/N - i.e. the fraction of the taper's energy inside |f| <= W - through the real "
               "_autocov/_crosscov/_fftconvolve helpers (FFT of size 16 / 32 = DFT definition with exact algebraic twiddles).")
BOUNDS = {
    "quick": "N in {8, 9} (FFT sizes 16, 32), NW in {1, 2.5, 3.5}, k <= 3, default k; sqrt(N) an exact algebraic number, sinc values uninterpreted",
    "thorough": "N in 8..13 and 16, NW in {1, 2, 2.5, 3, 3.5, 4}, k <= 4",
}
ASSUMPTIONS = ["floats modelled as exact reals",
               "CONTRACT STUB for the C routine multitap: tapers arbitrary reals, tapsum[i] = sum_n t[i,n]; tapsum[i] != 0 for even i and t[i,0] != 0 for odd i "
               "(otherwise the sign convention is undefined); the clauses sum_n t[i,n]^2 = N (mydpss.c: rms 1) and sum_n t[i,n] t[j,n] = 0 (distinct eigenvectors) "
               "enter only through substitution: the checks decide, for ARBITRARY buffers, that a column's energy is the taper's energy / N and that the inner products "
               "of columns are those of the tapers / N; unit energy and orthogonality of the columns then follow from the two contract clauses",
               "numpy.sinc on the concrete lag grid: one uninterpreted real per lag (the identity holds for every value of the kernel entries); "
               "numpy.sqrt(N): the positive root of s^2 = N", "scipy.fftpack fft/ifft = DFT definition with exact twiddles"]
OUTSIDE = ["everything the C routine is responsible for: that the tapers are the leading eigenvectors of the sinc kernel / agree with an independent "
           "eigen-solver, that the concentration ratios are non-increasing and inside (0, 1], that even-index tapers are symmetric and odd-index ones "
           "antisymmetric (float eigenproblem with convergence loops behind ctypes: not encodable; a counterexample is replayed through the real "
           "library, so the real C output is what a reported violation is checked against)",
           "N > 16 (FFT sizes other than 16 / 32)"]
BUDGET = {"quick": 900, "thorough": 3400}


class _FakeLib(object):
    """stands for the shared library: .multitap(n, k, lam, npi, tapers, tapsum)"""
    def __init__(self, fn):
        self.multitap = fn


def _sinc_uf_factory():
    memo = {}

    def sinc_uf(x):
        from symx.array import SymArray
        from symx.poly import Q
        arr = np.atleast_1d(np.asarray(x, dtype=float))
        out = []
        for v in arr:
            key = round(float(v), 12)
            if key == 0.0:
                out.append(Sym.const(1) if hasattr(Sym, 'const') else 1)
                continue
            if key not in memo:
                memo[key] = Sym(Q.var(ctx().fresh_name('sinc'), kind='uf', fn='sinc'))
            out.append(memo[key])
        return SymArray.make(out)
    return sinc_uf, memo


def _sqrt_exact(x):
    from symx.number import as_sym
    if isinstance(x, (int, float, np.integer, np.floating)):
        return as_sym(x).sqrt()
    return np.sqrt(x)


def case_wrapper(h, N, NW, k, default_k=False):
    sp()
    M = _sys.modules['spectrum.mtm']
    W = float(NW) / N
    if h.is_sym():
        from symx.array import SymBuffer
        t = [[h.real('t%d_%d' % (i, n)) for n in range(N)] for i in range(k)]
        sums = []
        for i in range(k):
            sm = 0
            for n in range(N):
                sm = sm + t[i][n]
            sums.append(sm)
            if i % 2 == 0:
                h.assume(sm != 0, "even taper: non-zero sum")
            else:
                h.assume(t[i][0] != 0, "odd taper: non-zero first sample")
        seen = {}

        def fake(n_, k_, lam, npi, tapers, tapsum):
            seen['args'] = (n_.value, k_.value, float(npi.value))
            if not all(isinstance(b, SymBuffer) for b in (lam, tapers, tapsum)):
                raise RuntimeError("stub expects symbolic buffers")
            for i in range(k):
                tapsum.array[i] = sums[i]
                for n in range(N):
                    tapers.array[i * N + n] = t[i][n]

        proxy = M.np
        ov = proxy.__dict__['_ov']
        sinc_uf, memo = _sinc_uf_factory()
        saved = (M.mtspeclib, ov.get('sinc'), ov.get('sqrt'))
        M.mtspeclib = _FakeLib(fake)
        ov['sinc'] = sinc_uf
        ov['sqrt'] = _sqrt_exact
        try:
            out, eig = M.dpss(N, NW) if default_k else M.dpss(N, NW, k)
        finally:
            M.mtspeclib = saved[0]
            for nm, v in (('sinc', saved[1]), ('sqrt', saved[2])):
                if v is None:
                    ov.pop(nm, None)
                else:
                    ov[nm] = v
        if seen.get('args', (None,))[:2] != (N, k):
            h.fail("C call arguments", "multitap called with %r, expected N=%d k=%d" % (seen.get('args'), N, k))
            return

        def kern(d):
            return 2 * W * sinc_uf(2 * W * d)[0] if d else 2 * W
    else:
        # replay: the REAL library at the case's (N, k) - and, because the solver's taper values cannot be injected into C,
        # at every admissible NW of a small grid: the claims are evaluated on what C really returns
        cands = [NW] + [w for w in (1, 1.5, 2, 2.5, 3, 3.5, 4) if w != NW and w < N / 2.0 and (default_k or k <= 2 * w)]
        if default_k:
            cands = [NW]
        for NW_try in cands:
            _replay_one(h, M, N, NW_try, k, default_k)
            kmax = min(int(math.floor(2 * NW_try)), N - 1)
            if not default_k and kmax > k:
                _replay_one(h, M, N, NW_try, kmax, False)       # the higher tapers exercise more of the sign logic
        return
    _claims(h, N, k, W, out, eig, t, kern)


def _replay_one(h, M, N, NW, k, default_k):
    W = float(NW) / N
    real = M.mtspeclib
    cap = {}

    def passthrough(n_, k_, lam, npi, tapers, tapsum):
        real.multitap.restype = None
        real.multitap(n_, k_, lam, npi, tapers, tapsum)
        kk, nn = k_.value, n_.value
        cap['t'] = np.array((ctypes.c_double * (kk * nn)).from_address(tapers.value)).reshape(kk, nn).copy()
        cap['sum'] = np.array((ctypes.c_double * kk).from_address(tapsum.value)).copy()
    M.mtspeclib = _FakeLib(passthrough)
    try:
        out, eig = M.dpss(N, NW) if default_k else M.dpss(N, NW, k)
    finally:
        M.mtspeclib = real
    if 't' not in cap or cap['t'].shape != (k, N):
        h.fail("C call arguments", "multitap called with shape %r, expected (%d, %d)" % (cap.get('t', np.zeros(0)).shape, k, N))
        return
    t = cap['t']

    def kern(d):
        return 2 * W * float(np.sinc(2 * W * d)) if d else 2 * W
    _claims(h, N, k, W, out, eig, t, kern)


def _claims(h, N, k, W, out, eig, t, kern):
    if tuple(np.shape(out)) != (N, k) or len(eig) != k:
        h.fail("shape", "tapers %r, eigenvalues %d; expected (%d, %d) and %d" % (tuple(np.shape(out)), len(eig), N, k, k))
        return
    for i in range(k):
        # column i is +-taper_i / sqrt(N)
        for n in range(N):
            h.claim_eq("col%d[%d]^2 * N = t^2" % (i, n), out[n, i] * out[n, i] * N, t[i][n] * t[i][n])
            if n:
                h.claim_eq("col%d proportional to taper %d (sample %d)" % (i, i, n), out[n, i] * t[i][0], out[0, i] * t[i][n])
        # orthonormal columns: as identities that hold for ARBITRARY buffers - the column's energy is the taper's
        # energy / N and the inner products are those of the tapers / N - from which the C contract (rms 1, distinct
        # eigenvectors orthogonal) gives unit energy and orthogonality by substitution
        nrm, tn = 0, 0
        for n in range(N):
            nrm = nrm + out[n, i] * out[n, i]
            tn = tn + t[i][n] * t[i][n]
        h.claim_eq("col%d energy * N = energy of taper %d (rms 1 => unit energy)" % (i, i), nrm * N, tn)
        if not h.is_sym():
            h.claim_eq("col%d unit energy (real library)" % i, nrm, 1)
        for j in range(i):
            dot, td = 0, 0
            for n in range(N):
                dot = dot + out[n, i] * out[n, j]
                td = td + t[i][n] * t[j][n]
            h.claim_eq("(col%d . col%d * N)^2 = (taper %d . taper %d)^2 (orthogonal tapers => orthogonal columns)" % (i, j, i, j),
                       (dot * N) * (dot * N), td * td)
            if not h.is_sym():
                h.claim_eq("col%d orthogonal to col%d (real library)" % (i, j), dot, 0)
        # sign convention
        if i % 2 == 0:
            sm = 0
            for n in range(N):
                sm = sm + out[n, i]
            h.claim_lt("even taper %d: positive sum" % i, 0, sm)
        else:
            h.claim_lt("odd taper %d: positive first sample" % i, 0, out[0, i])
        # concentration ratio = quadratic form of the sinc kernel (unit energy)
        quad = 0
        for n in range(N):
            for m in range(N):
                quad = quad + out[n, i] * out[m, i] * kern(abs(n - m))
        h.claim_eq("eigenvalue %d = h^T K h (energy fraction inside |f| <= NW/N)" % i, eig[i], quad)


def cases(tier, seed):
    q = tier == 'quick'
    out = []
    grid = [(8, 1, 1), (8, 1, 2), (8, 2.5, 2), (8, 2.5, 3), (8, 3.5, 3), (9, 2.5, 2)]
    if not q:
        grid += [(8, 2, 4), (8, 3.5, 4), (9, 3, 3), (10, 2.5, 3), (11, 4, 3), (12, 2.5, 2), (12, 3.5, 3), (13, 3, 2), (16, 2.5, 2), (16, 4, 3)]
    for N, NW, k in grid:
        out.append(Case("wrapper:N=%d:NW=%s:k=%d" % (N, NW, k), case_wrapper, dict(N=N, NW=NW, k=k), timeout=120 if q else 600,
                        max_paths=32, feas_timeout=5, wall=600 if q else 2400, max_decisions=16))
    out.append(Case("wrapper:default-k:N=8:NW=1", case_wrapper, dict(N=8, NW=1, k=2, default_k=True), timeout=120 if q else 600,
                    max_paths=16, feas_timeout=5, wall=600 if q else 2400, max_decisions=16))
    return out
