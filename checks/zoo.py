"""the twelve PSD classes at their smallest admissible sizes (shared by C02, C03, C04, C05, C07, C08, C15)"""
import numpy as np

from .common import sp

# name -> (min N real, min N complex, kind)
KIND = {
    'Periodogram': 'fourier', 'pcorrelogram': 'fourier', 'MultiTapering': 'fourier',
    'pburg': 'ar', 'pyule': 'ar', 'pcovar': 'ar', 'pmodcovar': 'ar', 'parma': 'arma', 'pma': 'ma',
    'pminvar': 'minvar', 'pmusic': 'subspace', 'pev': 'subspace',
}
ALL = list(KIND)

# default data lengths (small enough for the solver, large enough for the estimator's domain)
DEFAULT_N = {
    'Periodogram': 3, 'pcorrelogram': 3, 'MultiTapering': 3, 'pburg': 3, 'pyule': 3, 'pcovar': 3, 'pmodcovar': 3,
    'parma': 5, 'pma': 3, 'pminvar': 3, 'pmusic': 4, 'pev': 4,
}


# number of symbolic samples (None = all); the rest of the data vector is pinned to dyadic constants
NSYM = {'parma': 1, 'pma': 2}


def data(h, name, cplx, N=None, nsym='default'):
    N = N or DEFAULT_N[name]
    ns = NSYM.get(name) if nsym == 'default' else nsym
    if ns is None:
        return h.vec('x', N, cplx)
    return h.mixed_vec('x', N, cplx, ns)


def tapers_const(h, N, k=2):
    """fixed tapers and eigenvalues entering as constants (small dyadic rationals so that exact arithmetic stays cheap;
    the caller-supplied tapers need not be Slepian sequences for the clauses checked with them)"""
    t = np.zeros((N, k))
    for m in range(N):
        d = min(m, N - 1 - m)
        t[m, 0] = 0.5 + 0.25 * d
        if k > 1:
            t[m, 1] = 0.5 * (1 if 2 * m < N - 1 else (-1 if 2 * m > N - 1 else 0))
    lam = np.array([0.9375, 0.75][:k])
    return t, lam


def make(name, x, n=None, fs=1., scale=False, order=1, **kw):
    """construct estimator `name` on data x (SymArray or ndarray)"""
    S = sp()
    N = len(x)
    if name == 'Periodogram':
        return S.Periodogram(x, sampling=fs, window=kw.get('window', 'hamming'), NFFT=n, scale_by_freq=scale,
                             detrend=kw.get('detrend', None))
    if name == 'pcorrelogram':
        return S.pcorrelogram(x, sampling=fs, lag=kw.get('lag', 1), window=kw.get('window', 'hamming'), NFFT=n,
                              scale_by_freq=scale)
    if name == 'pburg':
        return S.pburg(x, order, NFFT=n, sampling=fs, scale_by_freq=scale)
    if name == 'pyule':
        return S.pyule(x, order, NFFT=n, sampling=fs, scale_by_freq=scale)
    if name == 'pcovar':
        return S.pcovar(x, order, NFFT=n, sampling=fs, scale_by_freq=scale)
    if name == 'pmodcovar':
        return S.pmodcovar(x, order, NFFT=n, sampling=fs, scale_by_freq=scale)
    if name == 'parma':
        return S.parma(x, kw.get('P', 1), kw.get('Q', 1), kw.get('lag', 3), NFFT=n, sampling=fs, scale_by_freq=scale)
    if name == 'pma':
        return S.pma(x, kw.get('Q', 1), kw.get('M', 2), NFFT=n, sampling=fs, scale_by_freq=scale)
    if name == 'pminvar':
        return S.pminvar(x, kw.get('m', 2), NFFT=n, sampling=fs, scale_by_freq=scale)
    if name in ('pmusic', 'pev'):
        cls = S.pmusic if name == 'pmusic' else S.pev
        return cls(x, kw.get('IP', 2), NSIG=kw.get('NSIG', 1), NFFT=n, sampling=fs, scale_by_freq=scale)
    if name == 'MultiTapering':
        t, lam = kw.get('tapers'), kw.get('lam')
        if t is None:
            t, lam = tapers_const(None, N)
        return S.MultiTapering(x, NW=None, k=None, NFFT=n, e=lam, v=t, method=kw.get('method', 'unity'),
                               scale_by_freq=scale, sampling=fs)
    raise KeyError(name)


def expected_len(n, cplx):
    if cplx:
        return n
    return n // 2 + 1 if n % 2 == 0 else (n + 1) // 2


class Degenerate(Exception):
    pass


def psd_of(p):
    """read .psd; the estimators' own rejection of degenerate data (ValueError: non-positive prediction error,
    singular matrix) is a legitimate outcome, not a property violation"""
    try:
        return p.psd
    except ValueError as e:
        raise Degenerate(str(e))
