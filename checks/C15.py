"""C15 - MA and ARMA estimators return valid, invertible models; class PSD proportional to |B|^2/|A|^2."""
import numpy as np

from symx.run import Case
from symx.number import SymBool, Sym
from .common import sp, conj, abs2, corr_def, stepup, case_schur_cohn_lemma
from . import zoo

ID = "C15"
EXPLANATION = ("ma, arma_estimate and the six AR/MA/ARMA classes are executed on symbolic data (fully symbolic for the small "
               "estimators, one or two symbolic samples among pinned ones for ma / arma_estimate whose expressions explode). "
               "z3 decides: the class PSD equals (rho/sampling)|B(f_j)|^2/|A(f_j)|^2 of the coefficients the object exposes "
               "(proportionality when rho is not exposed), the numbers of coefficients, that ma() is the Yule-Walker fit of "
               "the long AR model (hence reflection coefficients of modulus < 1 and positive variance, decided for arbitrary "
               "sequences with leading 1), and for P=Q that the ARMA AR part satisfies the normal equations of the modified "
               "Yule-Walker system over the unbiased lags Q+1..lag built independently in the harness.")
BOUNDS = {
    "quick": "class identity: pburg, pyule, pcovar, pmodcovar (N=3, order 1, fully symbolic, real+complex), pma (Q=1,M=2,N=3, 2 symbolic samples), "
             "parma (P=Q=1, lag=3, N=5, 1 symbolic sample); NFFT in {4,5}; ma(): Q=1, M=2, N=3; invertibility lemma on arbitrary sequences "
             "of length 3; arma_estimate P=Q=1 lag=3 N=5 (1 symbolic sample)",
    "thorough": "adds order 2 for the AR classes, NFFT in {4,5,6}, ma Q in {1,2}, M=3, arma_estimate with 2 symbolic samples and lag 4, P=Q=2 lag=5 (1 symbolic)",
}
ASSUMPTIONS = ["floats modelled as exact reals", "fft = DFT definition", "lstsq = exact normal equations",
               "ma / arma_estimate / pma / parma: all but 1-2 data samples pinned to dyadic constants (stated per case)",
               "sampling > 0"]
OUTSIDE = ["the P > 4 branch of arma_estimate (arcovar instead of arcovar_marple; needs lag >= 10)",
           "fully symbolic data for ma / arma_estimate (expression swell)", "data lengths 16..256 of the property text",
           "strict positivity of the PSD is decided directly only for order-1 Yule-Walker/Burg; otherwise it follows from the identity, rho>0 and stability (C12, C13)"]
BUDGET = {"quick": 900, "thorough": 3400}


def poly_at(h, coeffs, n, k):
    if h.is_sym():
        from symx import stubs
        tw = stubs.twiddles(n)
        acc = 1
        for j, c in enumerate(coeffs):
            acc = acc + c * tw(k * (j + 1))
        return acc
    acc = 1 + 0j
    for j, c in enumerate(coeffs):
        acc += complex(c) * np.exp(-2j * np.pi * k * (j + 1) / n)
    return acc


def case_class_spectrum(h, name, cplx, n, order):
    N = zoo.DEFAULT_N[name] + (order - 1)
    x = zoo.data(h, name, cplx, N)
    fs = h.real('fs', positive=True)
    p = zoo.make(name, x, n=n, fs=fs, scale=False, order=order)
    try:
        psd = zoo.psd_of(p)
    except zoo.Degenerate:
        return
    ar = p.ar if name != 'pma' else None
    ma = p.ma if name in ('pma', 'parma') else None
    rho = p.rho
    L = zoo.expected_len(n, cplx)
    if len(psd) != L:
        h.fail("len", "len(psd)=%d expected %d" % (len(psd), L))
        return
    if name in ('pburg', 'parma', 'pma') and rho is None:
        h.fail("rho not exposed")
        return
    fold = 1 if cplx else 2
    ref = None
    for k in range(L):
        den = abs2(poly_at(h, ar, n, k)) if ar is not None else 1
        num = abs2(poly_at(h, ma, n, k)) if ma is not None else 1
        if rho is not None:
            h.claim_eq("bin%d: psd*sampling*|A|^2 = %d*rho*|B|^2" % (k, fold), psd[k] * fs * den, fold * rho * num)
        else:
            # proportionality: psd[k]*|A_k|^2/|B_k|^2 is the same constant at every bin
            cur = (psd[k] * den, num)
            if ref is None:
                ref = cur
            else:
                h.claim_eq("bin%d: psd*|A|^2/|B|^2 constant" % k, cur[0] * ref[1], ref[0] * cur[1])
        h.claim_real("bin%d real" % k, psd[k])


def case_positive_psd(h, name, cplx, n):
    N = 3
    x = h.vec('x', N, cplx)
    h.assume_nonzero_vec(x)
    p = zoo.make(name, x, n=n, fs=1.0, scale=False, order=1)
    try:
        psd = zoo.psd_of(p)
    except zoo.Degenerate:
        return
    for k in range(len(psd)):
        h.claim_lt("bin%d > 0" % k, 0, psd[k].real)


def case_ma(h, N, Q, M, nsym):
    S = sp()
    x = h.mixed_vec('x', N, False, nsym)
    try:
        b, rho = S.ma(x, Q, M)
    except ValueError:
        return
    if len(b) != Q:
        h.fail("len", "len(ma)=%d" % len(b))
        return
    a_long, rho_long, _ = S.aryule(x, M, 'biased')
    h.claim_eq("rho = variance of the long Yule-Walker fit", rho, rho_long)
    # ma() = Yule-Walker on [1, a_long]: lag matching of that sequence
    seq = [1] + [a_long[i] for i in range(M)]
    L = len(seq)
    r = [corr_def(seq, seq, i) / L for i in range(Q + 1)]
    bb = [1] + [b[i] for i in range(Q)]
    for i in range(1, Q + 1):
        acc = 0
        for j in range(Q + 1):
            acc = acc + bb[j] * (r[i - j] if i >= j else conj(r[j - i]))
        h.claim_eq("ma: Yule-Walker lag %d of the long AR sequence" % i, acc, 0)


def case_invertible_lemma(h, L, Q):
    """for ANY sequence v (v[0]=1) the biased Yule-Walker fit of order Q has |k_i|<1 and positive error
    (this is what makes the MA polynomial returned by ma() minimum phase, with the Schur-Cohn lemma)"""
    S = sp()
    rest = h.real_vec('v', L - 1)
    vals = [1.0] + [rest[i] for i in range(L - 1)]
    if h.is_sym():
        from symx.array import SymArray
        v = SymArray.make(vals)
    else:
        v = np.array(vals, dtype=float)
    b, P, k = S.aryule(v, Q, 'biased')
    h.claim_lt("P>0", 0, P.real)
    for i in range(Q):
        h.claim_lt("|k%d|<1" % (i + 1), abs2(k[i]), 1)
    su = stepup([k[i] for i in range(Q)])
    for i in range(Q):
        h.claim_eq("b=stepup(k)[%d]" % i, b[i], su[i])


def case_arma(h, N, P, Q, lag, nsym):
    S = sp()
    x = h.mixed_vec('x', N, False, nsym)
    try:
        a, b, rho = S.arma_estimate(x, P, Q, lag)
    except ValueError:
        return
    if len(a) < P or len(b) != Q:
        h.fail("count", "len(ar)=%d len(ma)=%d" % (len(a), len(b)))
        return
    if len(a) != P:
        h.fail("count:ar", "arma_estimate returned %d AR coefficients for P=%d" % (len(a), P))
    if P == Q:
        # modified Yule-Walker normal equations over the unbiased lags Q+1..lag
        R = [corr_def(x, x, m) / (N - m) for m in range(lag + 1)]

        def RR(m):
            return R[m] if m >= 0 else conj(R[-m])
        for i in range(1, P + 1):
            acc = 0
            for m in range(Q + 1, lag + 1):
                e = RR(m)
                for j in range(1, P + 1):
                    e = e + a[j - 1] * RR(m - j)
                acc = acc + e * conj(RR(m - i))
            h.claim_eq("modified Yule-Walker normal equation %d" % i, acc, 0)


def case_arma_variance(h, N, P, Q, lag):
    """finite positive variance on concrete-plus-one-symbol data: decided directly"""
    S = sp()
    x = h.mixed_vec('x', N, False, 1)
    try:
        a, b, rho = S.arma_estimate(x, P, Q, lag)
    except ValueError:
        return
    h.claim_lt("rho>0", 0, rho.real)


def cases(tier, seed):
    q = tier == 'quick'
    out = []
    for name in ('pburg', 'pyule', 'pcovar', 'pmodcovar', 'pma', 'parma'):
        for cplx in (False, True):
            if cplx and name in ('pma', 'parma'):
                continue
            for n in ((4, 5) if q else (4, 5, 6)):
                for order in ((1,) if (q or name in ('pma', 'parma')) else (1, 2)):
                    if cplx and order == 2 and n == 5 and name in ('pburg', 'pyule'):
                        continue        # second lattice stage x generic 5-point twiddles on complex data: beyond the case budget
                    out.append(Case("class-spectrum:%s:%s:NFFT=%d:order=%d" % (name, 'cx' if cplx else 're', n, order),
                                    case_class_spectrum, dict(name=name, cplx=cplx, n=n, order=order),
                                    timeout=120 if q else 600, max_paths=8, feas_timeout=3, wall=500 if q else 2400))
    for name in ('pyule', 'pburg'):
        out.append(Case("positive-psd:%s:re:N=3:NFFT=4" % name, case_positive_psd, dict(name=name, cplx=False, n=4),
                        timeout=120 if q else 900, max_paths=8, feas_timeout=3))
    out.append(Case("ma:N=3:Q=1:M=2:nsym=2", case_ma, dict(N=3, Q=1, M=2, nsym=2), timeout=120, max_paths=32, feas_timeout=2))
    # odd M and Q > M/2 (valid but unusual order pairs)
    out.append(Case("ma:N=4:Q=1:M=3:nsym=1", case_ma, dict(N=4, Q=1, M=3, nsym=1), timeout=120, max_paths=32, feas_timeout=2, wall=500))
    out.append(Case("ma:N=4:Q=2:M=3:nsym=1", case_ma, dict(N=4, Q=2, M=3, nsym=1), timeout=120, max_paths=32, feas_timeout=2, wall=500))
    out.append(Case("ma:N=3:Q=1:M=2:nsym=3", case_ma, dict(N=3, Q=1, M=2, nsym=3), timeout=120 if q else 600, max_paths=32,
                    feas_timeout=2, wall=500 if q else 2400))
    if not q:
        out.append(Case("ma:N=4:Q=1:M=3:nsym=2", case_ma, dict(N=4, Q=1, M=3, nsym=2), timeout=600, max_paths=64, feas_timeout=2, wall=2400))
        out.append(Case("ma:N=4:Q=2:M=3:nsym=1", case_ma, dict(N=4, Q=2, M=3, nsym=1), timeout=600, max_paths=64, feas_timeout=2, wall=2400))
    for L, Q in ([(3, 1)] if q else [(3, 1), (3, 2), (4, 1), (4, 2)]):
        out.append(Case("ma-invertible-lemma:L=%d:Q=%d" % (L, Q), case_invertible_lemma, dict(L=L, Q=Q),
                        timeout=120 if q else 900, max_paths=16, feas_timeout=3, lemma=True))
    for p_, cplx in ([(1, False), (2, False)] if q else [(1, False), (2, False), (1, True)]):
        out.append(Case("schur-cohn-lemma:%s:p=%d" % ('cx' if cplx else 're', p_), case_schur_cohn_lemma,
                        dict(p=p_, cplx=cplx), lemma=True, timeout=120 if q else 900))
    out.append(Case("arma_estimate:N=5:P=1:Q=1:lag=3:nsym=1", case_arma, dict(N=5, P=1, Q=1, lag=3, nsym=1),
                    timeout=120 if q else 600, max_paths=64, feas_timeout=2, wall=500 if q else 2400))
    out.append(Case("arma_estimate:variance:N=5:P=1:Q=1:lag=3", case_arma_variance, dict(N=5, P=1, Q=1, lag=3),
                    timeout=120 if q else 600, max_paths=64, feas_timeout=2, wall=500 if q else 2400))
    if not q:
        out.append(Case("arma_estimate:N=5:P=1:Q=1:lag=3:nsym=2", case_arma, dict(N=5, P=1, Q=1, lag=3, nsym=2),
                        timeout=600, max_paths=64, feas_timeout=2, wall=2400))
        out.append(Case("arma_estimate:N=6:P=1:Q=1:lag=4:nsym=1", case_arma, dict(N=6, P=1, Q=1, lag=4, nsym=1),
                        timeout=600, max_paths=64, feas_timeout=2, wall=2400))
        out.append(Case("arma_estimate:N=8:P=2:Q=2:lag=5:nsym=1", case_arma, dict(N=8, P=2, Q=2, lag=5, nsym=1),
                        timeout=600, max_paths=64, feas_timeout=2, wall=2400))
    return out
