"""C14 - covariance and modified-covariance AR fits are least-squares optimal."""
import numpy as np

from symx.run import Case
from symx.number import SymBool, Sym
from .common import sp, conj, abs2

ID = "C14"
EXPLANATION = ("arcovar and modcovar (through the real corrmtx and a constructive exact model of lstsq) and the real Marple "
               "recursions arcovar_marple / modcovar_marple are executed on symbolic data. z3 decides that the residual is "
               "orthogonal to every regressor built in the harness directly from the data (forward; forward+backward for the "
               "modified method), that the returned error is the minimum energy with the documented normalisation, that "
               "the Marple recursions return the same coefficients and minimum per sample, and exact recovery of noiseless complex "
               "exponentials (symbolic amplitude and unit-modulus pole).")
BOUNDS = {
    "quick": "lstsq versions: p=1 N in 3..5, p=2 N in 4..5 (real), complex p=1 N<=4, p=2 N=4; Marple: p=1 N in 3..5, p=2 N=5 (real and complex), "
             "arcovar_marple p=3 N=7 real; exact recovery p=1 (N=3,4)",
    "thorough": "lstsq p<=2 N<=6 real/complex; Marple p<=2 N<=6 real/complex, p=3 N in 7..8 real, arcovar_marple p=4 N=9 real and p=3 N=7 complex; exact recovery p=1 N<=5, p=2 N=5 (lstsq versions)",
}
ASSUMPTIONS = ["floats modelled as exact reals", "lstsq = normal equations solved exactly, full column rank assumed (pivots non-zero)",
               "effect-free `if ...: pass else: ValueError(...)` statements of arcovar_marple (the exception is built, never raised) are not forked on",
               "exact recovery: |z|=1, amplitude != 0"]
OUTSIDE = ["rank-deficient data matrices (minimum-norm branch of LAPACK)", "p > 2, N > 6", "noisy-exponential behaviour"]
BUDGET = {"quick": 900, "thorough": 3400}


def fwd_residuals(x, a, p):
    N = len(x)
    return [x[n] + sum((a[j] * x[n - j - 1] for j in range(p)), 0) for n in range(p, N)]


def bwd_residuals(x, a, p):
    N = len(x)
    return [conj(x[n - p]) + sum((a[j] * conj(x[n - p + j + 1]) for j in range(p)), 0) for n in range(p, N)]


def energy(rs):
    acc = 0
    for r in rs:
        acc = acc + abs2(r)
    return acc


def ortho_claims(h, x, a, p, modified, tag):
    N = len(x)
    rf = fwd_residuals(x, a, p)
    rb = bwd_residuals(x, a, p) if modified else []
    for j in range(p):
        acc = 0
        for i, n in enumerate(range(p, N)):
            acc = acc + rf[i] * conj(x[n - j - 1])
            if modified:
                acc = acc + rb[i] * x[n - p + j + 1]
        h.claim_eq("%s:residual orthogonal to regressor %d" % (tag, j + 1), acc, 0)
    return energy(rf) + (energy(rb) if modified else 0)


def case_lstsq(h, N, p, cplx, modified):
    S = sp()
    x = h.vec('x', N, cplx)
    fn = S.modcovar if modified else S.arcovar
    try:
        a, e = fn(x, p)
    except AssertionError:
        h.fail("assertion 'wierd behaviour' fired (imaginary error)")
        return
    if len(a) != p:
        h.fail("len", "len %d" % len(a))
        return
    E = ortho_claims(h, x, a, p, modified, "lstsq")
    h.claim_eq("returned error = minimum energy", e, E)


def case_marple(h, N, p, cplx, modified):
    S = sp()
    x = h.vec('x', N, cplx)
    try:
        if modified:
            am, pm, _pv = S.modcovar_marple(x, p)
        else:
            am, pm, _ab, _pb, _pbv = S.arcovar_marple(x, p)
    except ValueError:
        return      # modcovar_marple's own rejection of degenerate data
    a = [am[i] for i in range(p)]
    E = ortho_claims(h, x, a, p, modified, "marple")
    norm = 2 * (N - p) if modified else (N - p)
    h.claim_eq("marple error = minimum energy per sample", pm * norm, E)
    h.claim_real("marple error real", pm)


def case_marple_vs_lstsq(h, N, p, cplx, modified):
    S = sp()
    x = h.vec('x', N, cplx)
    try:
        if modified:
            am, pm, _pv = S.modcovar_marple(x, p)
            a, e = S.modcovar(x, p)
        else:
            am, pm, _ab, _pb, _pbv = S.arcovar_marple(x, p)
            a, e = S.arcovar(x, p)
    except ValueError:
        return
    for i in range(p):
        h.claim_eq("a_marple[%d]=a_lstsq[%d]" % (i, i), am[i], a[i])
    norm = 2 * (N - p) if modified else (N - p)
    h.claim_eq("error_marple*norm=error_lstsq", pm * norm, e)


def unit(h, name):
    """unit-modulus complex number (c + i s, c^2+s^2=1)"""
    z = h.cplx(name)
    if h.is_sym():
        h.assume(abs2(z) == 1, "|z|=1")
    else:
        z = z / abs(z) if abs(z) > 0 else 1.0 + 0j
    return z


def case_exact_recovery(h, N, p, modified, impl):
    S = sp()
    zs = [unit(h, "z%d" % i) for i in range(p)]
    As = [h.cplx("A%d" % i) for i in range(p)]
    for A in As:
        h.assume(A != 0, "amplitude != 0")
    if p == 2:
        h.assume(zs[0] != zs[1], "distinct poles")
    vals = []
    for n in range(N):
        acc = 0
        for i in range(p):
            zn = 1
            for _ in range(n):
                zn = zn * zs[i]
            acc = acc + As[i] * zn
        vals.append(acc)
    if h.is_sym():
        from symx.array import SymArray
        x = SymArray.make(vals, cplx=True)
    else:
        x = np.array(vals, dtype=complex)
    try:
        if impl == 'lstsq':
            a, e = (S.modcovar if modified else S.arcovar)(x, p)
        elif modified:
            a, e, _ = S.modcovar_marple(x, p)
        else:
            a, e = S.arcovar_marple(x, p)[:2]
    except ValueError:
        return
    # A(q) = prod (1 - z_i q^-1)
    if p == 1:
        want = [-zs[0]]
    else:
        want = [-(zs[0] + zs[1]), zs[0] * zs[1]]
    for i in range(p):
        h.claim_eq("a[%d] = coefficient of prod(1 - z_i q^-1)" % i, a[i], want[i])
    h.claim_eq("zero prediction error", e, 0)


def cases(tier, seed):
    q = tier == 'quick'
    out = []
    for modified in (False, True):
        mt = 'modcovar' if modified else 'covar'
        for cplx in (False, True):
            tag = 'cx' if cplx else 're'
            if q:
                grid = [(3, 1), (4, 1), (5, 1), (4, 2), (5, 2)] if not cplx else [(3, 1), (4, 1), (4, 2)]
            else:
                grid = [(N, p) for p in (1, 2) for N in range(2 * p + 1, 7)]
            for N, p in grid:
                out.append(Case("%s:lstsq:%s:N=%d:p=%d" % (mt, tag, N, p), case_lstsq, dict(N=N, p=p, cplx=cplx, modified=modified),
                                timeout=120 if q else 600, max_paths=8, feas_timeout=5, wall=500 if q else 2400))
            if q:
                mgrid = [(3, 1), (4, 1), (5, 1), (5, 2)] if not cplx else [(3, 1), (4, 1), (5, 2)]
                if not modified and not cplx:
                    mgrid += [(7, 3)]
            else:
                mgrid = [(3, 1), (4, 1), (5, 1), (6, 1), (5, 2), (6, 2)]
                if not cplx:
                    mgrid += [(7, 3), (8, 3)]
                if not modified:
                    mgrid += [(9, 4)] if not cplx else [(7, 3)]
            for N, p in mgrid:
                out.append(Case("%s:marple:%s:N=%d:p=%d" % (mt, tag, N, p), case_marple, dict(N=N, p=p, cplx=cplx, modified=modified),
                                timeout=120 if q else 600, max_paths=32, feas_timeout=2, wall=500 if q else 2400))
                if N <= 5 or not q:
                    out.append(Case("%s:marple-vs-lstsq:%s:N=%d:p=%d" % (mt, tag, N, p), case_marple_vs_lstsq,
                                    dict(N=N, p=p, cplx=cplx, modified=modified), timeout=120 if q else 600, max_paths=32,
                                    feas_timeout=2, wall=500 if q else 2400))
        for impl in ('lstsq', 'marple'):
            for N in ((3, 4) if q else (3, 4, 5)):
                out.append(Case("%s:exact-recovery:%s:N=%d:p=1" % (mt, impl, N), case_exact_recovery,
                                dict(N=N, p=1, modified=modified, impl=impl), timeout=120 if q else 600, max_paths=16,
                                feas_timeout=5))
        if not q and not modified:     # the modified-covariance p=2 recovery does not decide within 2400 s
            out.append(Case("%s:exact-recovery:lstsq:N=5:p=2" % mt, case_exact_recovery,
                            dict(N=5, p=2, modified=modified, impl='lstsq'), timeout=900, max_paths=16, feas_timeout=5, wall=2400))
    from .common import reuse_cases, Call
    specs = []
    for cplx in (False, True):
        specs += [("arcovar(p=1)", Call('arcovar', 1), 4, cplx), ("modcovar(p=1)", Call('modcovar', 1), 4, cplx),
                  ("arcovar_marple(p=1)", Call('arcovar_marple', 1), 4, cplx), ("modcovar_marple(p=1)", Call('modcovar_marple', 1), 4, cplx),
                  ("corrmtx(modified)", Call('corrmtx', 1, 'modified'), 3, cplx), ("corrmtx(covariance)", Call('corrmtx', 1, 'covariance'), 3, cplx)]
    out += reuse_cases(specs, q)
    return out
