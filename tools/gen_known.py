#!/usr/bin/env python3
"""dev-time helper: merge the violating claim keys of record dumps (VERIF_DUMP) into known_findings.json entries.
usage: gen_known.py <finding-id> <regex on key> <dump.json> [<dump.json> ...]   (never used by the checks at run time)"""
import json, os, re, sys
ROOT = os.path.dirname(os.path.dirname(os.path.abspath(__file__)))
fid, rx = sys.argv[1], re.compile(sys.argv[2])
keys = set()
for p in sys.argv[3:]:
    for r in json.load(open(p)):
        if r.get('verdict') == 'violation':
            for k in r.get('keys', []):
                if rx.search(k):
                    keys.add(k)
kf = json.load(open(os.path.join(ROOT, 'known_findings.json')))
ent = [k for k in kf if k['id'] == fid][0]
ent['keys'] = sorted(set(ent.get('keys', [])) | keys)
json.dump(kf, open(os.path.join(ROOT, 'known_findings.json'), 'w'), indent=1)
print(fid, len(ent['keys']), 'keys')
