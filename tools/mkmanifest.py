#!/usr/bin/env python3
"""regenerate MANIFEST.json from the check modules' metadata (run with .venv/bin/python)"""
import importlib, json, os, sys
ROOT = os.path.dirname(os.path.dirname(os.path.abspath(__file__)))
sys.path.insert(0, ROOT)
NA = {}
props = [json.loads(l) for l in open(os.path.join(ROOT, "properties.jsonl"))]
checks, na = [], []
for p in props:
    cid = p["id"]
    path = os.path.join(ROOT, "checks", cid + ".py")
    if cid in NA or not os.path.exists(path):
        na.append({"property_id": cid, "reason": NA.get(cid, "check not built yet (framework under construction)")})
        continue
    m = importlib.import_module("checks." + cid)
    b = getattr(m, "BOUNDS", {})
    checks.append({
        "property_id": cid,
        "quick_cmd": "./run.sh %s quick" % cid,
        "thorough_cmd": "./run.sh %s thorough" % cid,
        "evidence_file": "/verif/evidence/%s.json" % cid,
        "replay_cmd_template": "./run.sh %s --replay {path}" % cid,
        "engine": "symx",
        "level_claimed": {
            "category": "other",
            "text": "bounded symbolic verification of the real Python code by SMT (exact real-arithmetic model of floats): "
                    + getattr(m, "LEVEL_TEXT", m.EXPLANATION),
            "design_ref": "DESIGN.md section 4, " + cid,
        },
        "level_note": "bounds: quick: %s | thorough: %s | assumptions: %s | outside the claim: %s" % (
            b.get("quick"), b.get("thorough"), "; ".join(getattr(m, "ASSUMPTIONS", [])), "; ".join(getattr(m, "OUTSIDE", []))),
        "technique": getattr(m, "TECHNIQUE", "symbolic execution of the real source on exact rational-function values; each claim decided by z3 (QF_NRA), counterexamples replayed on the unpatched float code"),
    })
man = {
  "version": 1,
  "setup_cmd": "./setup.sh",
  "hooks": {
    "guard": "COKELAER_SPECTRUM_VERIF",
    "enable": "no hooks in /repo are needed: checks import /repo/src at run time and patch namespaces in-process (run.sh exports COKELAER_SPECTRUM_VERIF=1 for uniformity)",
    "baseline_off_cmd": "cd /repo && /venv/bin/python -m pytest -ra -q -p no:cacheprovider --timeout=900 --continue-on-collection-errors",
    "source_commits": [],
    "add_only": True
  },
  "engines": [{"name": "symx", "path": "/verif/symx", "serves_properties": [c["property_id"] for c in checks],
               "kind_free_text": "symbolic interpreter layer for numpy code (Sym/SymArray, library-kernel stubs, path exploration) + z3/cvc5 query driver + float replay"}],
  "checks": checks,
  "not_applicable": na,
  "notes": "exit codes: 0 ok, 1 reproduced unlisted violation (VIOLATION line), 3 harness error (no verdict). known_findings.json lists genuine defects (fixed / known)."
}
json.dump(man, open(os.path.join(ROOT, "MANIFEST.json"), "w"), indent=1)
print("checks:", [c["property_id"] for c in checks], "n/a:", [n["property_id"] for n in na])
