#!/usr/bin/env python3
"""dev-time helper: confirm a seeded change produced by a sub-agent and run checks against it.
usage: seedeval.py <seed-id> <property> <check> [<check> ...]
 - confirms in the scratch worktree /tmp/seed/<seed-id>: suite passes with the change, demo fails with / passes without
 - runs the listed checks (quick) against the scratch worktree (VERIF_REPO_ROOT), /repo is not touched
 - stores patch.diff, demo, meta.json under /verif/seeded/<seed-id>/"""
import json, os, re, shutil, subprocess, sys, time
ROOT = os.path.dirname(os.path.dirname(os.path.abspath(__file__)))
sid, prop, checks = sys.argv[1], sys.argv[2], sys.argv[3:]
wt = "/tmp/seed/%s" % sid
env = dict(os.environ, PYTHONPATH=wt + "/src")
def sh(cmd, cwd=None, env_=None, timeout=3000):
    p = subprocess.run(cmd, shell=True, cwd=cwd, env=env_ or os.environ, capture_output=True, text=True, timeout=timeout)
    return p.returncode, (p.stdout + p.stderr)
demo = [f for f in os.listdir(wt) if f.startswith("demo_") and f.endswith(".py")][0]
meta = dict(seed=sid, property=prop, ran=[])
# state: change applied
rc, out = sh("git -C %s diff --stat -- src | tail -1" % wt); meta['diffstat'] = out.strip()
rc, out = sh("/venv/bin/python -m pytest -q -p no:cacheprovider --timeout=900 2>&1 | tail -1", cwd=wt, env_=env)
meta['tests_with_change'] = out.strip(); meta['ran'].append("pytest (with change): " + out.strip())
rc1, out1 = sh("/venv/bin/python %s" % demo, cwd=wt, env_=env)
meta['demo_exit_with_change'] = rc1
sh("git -C %s apply -R patch.diff" % wt)
rc0, out0 = sh("/venv/bin/python %s" % demo, cwd=wt, env_=env)
meta['demo_exit_without_change'] = rc0
sh("git -C %s apply patch.diff" % wt)
meta['ran'].append("demo with change: exit %d; without: exit %d" % (rc1, rc0))
meta['confirmed'] = ("165 passed" in meta['tests_with_change']) and rc1 != 0 and rc0 == 0
print(json.dumps({k: meta[k] for k in ('tests_with_change', 'demo_exit_with_change', 'demo_exit_without_change', 'confirmed')}))
# run checks against it: the same machinery pointed at the scratch worktree (which has the change applied);
# /repo itself is not touched, and evidence of these runs goes to a scratch directory
meta['checks'] = {}
cenv = dict(os.environ, VERIF_REPO_ROOT=wt, VERIF_EVIDENCE_DIR="/tmp/seed/_evidence")
for c in checks:
    t = time.time()
    rc, out = sh("./run.sh %s quick" % c, cwd=ROOT, env_=cenv, timeout=3000)
    viol = [l for l in out.splitlines() if l.startswith("VIOLATION")]
    summ = [l for l in out.splitlines() if l.startswith("SUMMARY")]
    meta['checks'][c] = dict(exit=rc, violations=len(viol), first=(viol[0][:300] if viol else None), summary=(summ[0] if summ else out[-300:]),
                             wall=round(time.time() - t, 1))
    print(c, "exit", rc, "violations", len(viol), (viol[0][:200] if viol else ""), summ[0][-120:] if summ else "")
meta['detected_by'] = [c for c, r in meta['checks'].items() if r['exit'] == 1]
d = os.path.join(ROOT, "seeded", sid)
os.makedirs(d, exist_ok=True)
shutil.copy(wt + "/patch.diff", d + "/patch.diff")
shutil.copy(os.path.join(wt, demo), os.path.join(d, demo))
meta['ran'].append("checks run (quick tier) against the scratch worktree with the change applied (VERIF_REPO_ROOT): " + ", ".join(checks))
json.dump(meta, open(d + "/meta.json", "w"), indent=1)
print("detected_by", meta['detected_by'])
