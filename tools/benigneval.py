#!/usr/bin/env python3
"""dev-time helper: run checks (quick) against a scratch worktree holding a behaviour-preserving refactoring.
usage: benigneval.py <worktree-id> <check> [<check> ...]   -- expected: no VIOLATION line, exit 0 (INCONCLUSIVE is acceptable)"""
import json, os, subprocess, sys, time, shutil
ROOT = os.path.dirname(os.path.dirname(os.path.abspath(__file__)))
sid, checks = sys.argv[1], sys.argv[2:]
wt = "/tmp/seed/%s" % sid
env = dict(os.environ, VERIF_REPO_ROOT=wt, VERIF_EVIDENCE_DIR="/tmp/seed/_evidence")
res = {}
for c in checks:
    t = time.time()
    p = subprocess.run("./run.sh %s quick" % c, shell=True, cwd=ROOT, env=env, capture_output=True, text=True, timeout=3000)
    out = p.stdout + p.stderr
    viol = [l for l in out.splitlines() if l.startswith("VIOLATION")]
    inc = [l for l in out.splitlines() if l.startswith("INCONCLUSIVE")]
    summ = [l for l in out.splitlines() if l.startswith("SUMMARY")]
    res[c] = dict(exit=p.returncode, violations=len(viol), inconclusive=len(inc), first=(viol or inc or [''])[0][:260], summary=summ[0] if summ else out[-200:],
                  wall=round(time.time() - t, 1))
    print(c, "exit", p.returncode, "violations", len(viol), "inconclusive", len(inc), (viol or inc or [''])[0][:220])
d = os.path.join(ROOT, "seeded", "benign-" + sid)
os.makedirs(d, exist_ok=True)
shutil.copy(wt + "/patch.diff", d + "/patch.diff")
json.dump(dict(refactoring=sid, kind="behaviour-preserving refactoring (must NOT raise an alarm)", checks=res,
               false_alarm=[c for c, r in res.items() if r['exit'] == 1]), open(d + "/meta.json", "w"), indent=1)
