#!/bin/bash
# ./run.sh <Cxx> quick|thorough        run a check (rebuilds everything from /repo's working tree)
# ./run.sh <Cxx> --replay <file>       re-run a recorded counterexample against the unpatched code
cd "$(dirname "$0")"
if [ ! -x .venv/bin/python ] || ! .venv/bin/python -c "import z3, numpy, scipy" 2>/dev/null; then
  ./setup.sh >/dev/null || { echo "setup failed"; exit 3; }
fi
export COKELAER_SPECTRUM_VERIF=1 PYTHONDONTWRITEBYTECODE=1 PYTHONHASHSEED=0
exec .venv/bin/python -W ignore -m symx.run "$@"
