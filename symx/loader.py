"""Import spectrum from /repo/src (current working tree) and switch its namespaces to symbolic mode.

Nothing under /repo is edited.  Symbolic mode =
  * the name bound to the numpy module in every spectrum module -> NumpyProxy (array creation returns SymArray)
  * float/int/complex builtins shadowed in those modules (pass Sym through)
  * a few scipy entry points that are imported inside functions are wrapped by dispatchers that fall back to
    the original when no argument is symbolic
"""
import builtins
import importlib
import sys
import types

import numpy as np
import scipy.linalg
import scipy.signal
import scipy.fftpack

from . import stubs
from .array import SymArray, is_symbolic, is_complex_array, to_symarray, dtype_kind, SHADOW
from .number import Sym, SymError, active

from .paths import REPO_SRC

_EXCLUDE_DEFAULT = ("spectrum.window", "spectrum.datasets", "spectrum.errors")


def import_spectrum():
    if REPO_SRC not in sys.path:
        sys.path.insert(0, REPO_SRC)
    import spectrum
    if not spectrum.__file__.startswith(REPO_SRC):
        raise RuntimeError("spectrum imported from %s, not %s" % (spectrum.__file__, REPO_SRC))
    return spectrum


def spectrum_modules():
    return {n: m for n, m in sys.modules.items()
            if (n == 'spectrum' or n.startswith('spectrum.')) and isinstance(m, types.ModuleType)}


# ---------------------------------------------------------------------------
def _kind_of(dtype):
    if dtype is None:
        return 'f'
    return dtype_kind(dtype)


def sym_zeros(shape, dtype=float, **kw):
    k = _kind_of(dtype)
    if k in 'iub':
        return np.zeros(shape, dtype=dtype)
    return SymArray.filled(shape, 0, cplx=(k == 'c'))


def sym_ones(shape, dtype=float, **kw):
    k = _kind_of(dtype)
    if k in 'iub':
        return np.ones(shape, dtype=dtype)
    return SymArray.filled(shape, 1, cplx=(k == 'c'))


def _real_dtype(dtype):
    """shadowed builtins (float/complex/int replacements) -> the numpy dtype they stand for"""
    if dtype is None:
        return None
    try:
        k = SHADOW.get(dtype)
    except TypeError:
        k = None
    if k:
        return {'f': np.float64, 'c': np.complex128, 'i': np.int64}[k]
    return dtype


def sym_array(obj, dtype=None, **kw):
    if is_symbolic(obj):
        out = SymArray.make(obj, cplx=(dtype is not None and _kind_of(dtype) == 'c'))
        if getattr(obj, '_ikind', False) and (dtype is None or _kind_of(dtype) in 'iu'):
            out._ikind = True       # numpy.array of an integer array is an integer array
        return out
    return np.array(obj, dtype=_real_dtype(dtype), **kw)


def sym_asarray(obj, dtype=None, **kw):
    if isinstance(obj, SymArray):
        # numpy.asarray returns the SAME object when no conversion is needed (aliasing matters)
        if dtype is None:
            return obj
        k = _kind_of(dtype)
        if k in 'cf' and ((k == 'c') == obj.is_complex()):
            return obj
    if not is_symbolic(obj):
        return np.asarray(obj, dtype=_real_dtype(dtype))      # concrete data: numpy's own (non-copying) semantics
    return sym_array(obj, dtype)


def sym_isrealobj(x):
    return not is_complex_array(x)


def sym_iscomplexobj(x):
    return is_complex_array(x)


class NumpyProxy(types.ModuleType):
    def __init__(self):
        super().__init__("numpy")
        self.__dict__['_ov'] = {
            'zeros': sym_zeros, 'ones': sym_ones, 'empty': sym_zeros,
            'array': sym_array, 'asarray': sym_asarray,
            'isrealobj': sym_isrealobj, 'iscomplexobj': sym_iscomplexobj,
        }

    def __getattr__(self, name):
        ov = self.__dict__['_ov']
        if name in ov and active():
            return ov[name]
        if name == 'pi' and active():
            from .number import ctx
            c = ctx()
            if getattr(c, 'symbolic_pi', False):
                return symbolic_pi()
        return getattr(np, name)


def symbolic_pi():
    """pi as a symbolic real with a rational enclosure (used where the code multiplies and divides by pi and
    the property is about that cancellation, not about the double closest to pi)"""
    from .number import ctx, SymBool, _q
    from .poly import Q
    from fractions import Fraction
    c = ctx()
    v = getattr(c, '_pi', None)
    if v is None:
        v = c._pi = Sym(Q.var("PI", kind='const'))
        c.axioms.append(SymBool.cmp('<', _q(Fraction(314159265, 10 ** 8)) - v.re))
        c.axioms.append(SymBool.cmp('<', v.re - _q(Fraction(314159266, 10 ** 8))))
    return v


class _ShadowMeta(type):
    """shadowed builtin: call passes Sym through, isinstance() behaves like the builtin"""
    def __instancecheck__(cls, inst):
        return isinstance(inst, cls._base)

    def __subclasscheck__(cls, sub):
        return issubclass(sub, cls._base)

    def __call__(cls, *a, **kw):
        return cls._conv(*a, **kw)

    def __eq__(cls, other):
        return other is cls or other is cls._base

    def __ne__(cls, other):
        return not (other is cls or other is cls._base)

    def __hash__(cls):
        return hash(cls._base)


def _conv_float(v=0.0):
    if isinstance(v, Sym):
        if not v.im.is_zero():
            raise TypeError("float() argument must be real, not complex Sym")
        return v
    return builtins.float(v)


def _conv_complex(*a):
    if a and isinstance(a[0], Sym):
        return Sym(a[0].re, a[0].im, True)
    return builtins.complex(*a)


def _conv_int(v=0, *a):
    if isinstance(v, Sym):
        return builtins.int(v)      # raises SymError unless constant
    return builtins.int(v, *a)


class sym_float(metaclass=_ShadowMeta):
    _base = builtins.float
    _conv = staticmethod(_conv_float)


class sym_complex(metaclass=_ShadowMeta):
    _base = builtins.complex
    _conv = staticmethod(_conv_complex)


class sym_int(metaclass=_ShadowMeta):
    _base = builtins.int
    _conv = staticmethod(_conv_int)


def _dispatch(orig, stub):
    def wrapper(*args, **kw):
        if active() and any(is_symbolic(a) for a in args):
            return stub(*args, **kw)
        return orig(*args, **kw)
    wrapper.__name__ = getattr(orig, '__name__', 'wrapped')
    wrapper._symx_orig = orig
    return wrapper


def _fftpack_fft(x, n=None, axis=-1, **kw):
    return stubs.fft(x, None if n is None else int(n), axis)


def _fftpack_ifft(x, n=None, axis=-1, **kw):
    return stubs.ifft(x, None if n is None else int(n), axis)


_INSTALLED = []


def install(exclude=_EXCLUDE_DEFAULT):
    """switch spectrum's namespaces to symbolic mode (idempotent)"""
    if _INSTALLED:
        return
    import_spectrum()
    proxy = NumpyProxy()
    for name, mod in spectrum_modules().items():
        if name in exclude:
            continue
        d = mod.__dict__
        for k, v in list(d.items()):
            if v is np:
                _INSTALLED.append((d, k, v))
                d[k] = proxy
        SHADOW.update({sym_float: 'f', sym_complex: 'c', sym_int: 'i'})
        for k, f in (('float', sym_float), ('complex', sym_complex), ('int', sym_int)):
            _INSTALLED.append((d, k, d.get(k, _MISSING)))
            d[k] = f
    # library entry points imported inside functions / referenced through their module
    for mod, attr, stub in (
        (scipy.linalg, 'toeplitz', stubs.toeplitz),
        (scipy.linalg, 'lstsq', stubs.lstsq),
        (scipy.linalg, 'cholesky', stubs.scipy_cholesky),
        (scipy.linalg, 'cho_solve', stubs.scipy_cho_solve),
        (scipy.signal, 'correlate', stubs.correlate_full),
        (scipy.fftpack, 'fft', _fftpack_fft),
        (scipy.fftpack, 'ifft', _fftpack_ifft),
    ):
        orig = getattr(mod, attr)
        _INSTALLED.append((mod.__dict__, attr, orig))
        setattr(mod, attr, _dispatch(orig, stub))
    # names bound by value at import time in spectrum modules (from scipy... import x)
    for name, mod in spectrum_modules().items():
        d = mod.__dict__
        for k, v in list(d.items()):
            for lib, attr in ((scipy.linalg, 'toeplitz'), (scipy.linalg, 'lstsq'), (scipy.signal, 'correlate')):
                w = getattr(lib, attr)
                if v is getattr(w, '_symx_orig', None):
                    _INSTALLED.append((d, k, v))
                    d[k] = w


_MISSING = object()


def uninstall():
    while _INSTALLED:
        d, k, v = _INSTALLED.pop()
        if v is _MISSING:
            d.pop(k, None)
        else:
            d[k] = v
