"""Transcendental functions on Sym.

constant argument  -> the float numpy returns, as an exact rational (enclosure model)
symbolic argument  -> uninterpreted application: a fresh real per (function, argument);
                      checks add the axioms they rely on (ctx().uf_apps lists the applications).
"""
from fractions import Fraction
import numpy as np

from .number import Sym, SymBool, SymError, ctx, _lift, _q
from .poly import Q

_NP = {
    'exp': np.exp, 'log': np.log, 'log10': np.log10, 'cos': np.cos, 'sin': np.sin, 'tanh': np.tanh,
    'arctanh': np.arctanh, 'arcsin': np.arcsin, 'arccos': np.arccos, 'cosh': np.cosh, 'sinc': np.sinc,
}


def _key(q):
    return q.key()


def apply(name, x):
    if x.is_const():
        v = x.const_value()
        if isinstance(v, complex):
            r = _NP[name](v)
        else:
            r = _NP[name](float(v))
        if isinstance(r, (float, np.floating)) and not np.isfinite(r):
            raise SymError("%s(%r) is not finite" % (name, v))
        return _lift(r.item() if hasattr(r, 'item') else r)
    if not x.im.is_zero():
        if name == 'exp' and x.re.is_zero():
            # exp(j y) = cos y + j sin y on the uninterpreted cos / sin, with cos^2 + sin^2 = 1 for this y
            y = Sym(x.im)
            cs, sn = apply('cos', y), apply('sin', y)
            c = ctx()
            k = ('unit-circle', _key(y.re))
            if k not in c.uf_apps:
                c.uf_apps[k] = (cs, y)
                c.axioms.append(SymBool.cmp('==', cs.re * cs.re + sn.re * sn.re - _q(1)))
                # ... and applied as a rewrite rule sin^2 -> 1 - cos^2, so that products of unit-circle numbers
                # normalise without the solver
                from . import poly as P
                idx = sorted({-nv for m in sn.re.n.t for nv, e in m})
                if len(idx) == 1 and not sn.re.d and len(sn.re.n.t) == 1 and cs.re.d == {} and not cs.is_const():
                    P.declare_quadratic(P.var_names()[idx[0]], P.Poly.const(1) - (cs.re.n * cs.re.n).scale(cs.re.s * cs.re.s))
            return Sym(cs.re, sn.re, True)
        raise SymError("%s of a complex symbolic value" % name)
    c = ctx()
    k = (name, _key(x.re))
    hit = c.uf_apps.get(k)
    if hit is not None:
        return hit[0]
    v = Sym(Q.var(c.fresh_name(name), kind='uf', fn=name))
    c.uf_apps[k] = (v, x)
    # universally valid range facts
    if name in ('cos', 'sin', 'tanh'):
        c.axioms.append(SymBool.cmp('<=', v.re - _q(1)))
        c.axioms.append(SymBool.cmp('<=', -v.re - _q(1)))
    if name in ('exp', 'cosh'):
        c.axioms.append(SymBool.cmp('<', -v.re))
    return v
