"""Transcendental functions on Sym.

constant argument  -> the float numpy returns, as an exact rational (enclosure model)
symbolic argument  -> uninterpreted application: a fresh real per (function, argument);
                      checks add the axioms they rely on (ctx().uf_apps lists the applications).
"""
from fractions import Fraction
import numpy as np

from .number import Sym, SymBool, SymError, ctx, _lift, _q
from .poly import Q

_NP = {
    'exp': np.exp, 'log': np.log, 'log10': np.log10, 'cos': np.cos, 'sin': np.sin, 'tanh': np.tanh,
    'arctanh': np.arctanh, 'arcsin': np.arcsin, 'arccos': np.arccos, 'cosh': np.cosh, 'sinc': np.sinc,
}


def _key(q):
    return q.key()


# ---------------------------------------------------------------------------
# log / fractional powers of POSITIVE quantities as an algebra (enabled per check: ctx().log_algebra = True):
#   x^r   for a monomial x = k * v1^e1 * ... (every v_i assumed positive by the check):  k^r * pw(v1,r)^e1 * ...
#   log x for x = k * monomial * primitive polynomial / atoms:  log k + sum e_i L(v_i) + L(prim) - ...,
#         with L(pw(v, r)) = r L(v)
# pw(v, r) and L(.) are uninterpreted (fresh reals); the rewrite rules are exactly log(xy) = log x + log y and
# log(x^r) = r log x. Float exponents such as 1./3 are read as the rational they stand for (limit_denominator).
def _varname(idx):
    from . import poly as P
    return P.var_names()[idx]


def _pw_var(vname, rr):
    c = ctx()
    tab = c.__dict__.setdefault('pw_vars', {})
    k = (vname, rr)
    v = tab.get(k)
    if v is None:
        nm = "pw_%s_%d_%d" % (vname, rr.numerator, rr.denominator)
        v = Sym(Q.var(nm, kind='uf', fn='pow'))
        tab[k] = v
        c.__dict__.setdefault('pw_of', {})[nm] = k
        c.axioms.append(SymBool.cmp('<', -v.re))
    return v


def pow_frac(x, r):
    if not x.im.is_zero():
        raise SymError("fractional power of a complex symbolic value")
    q = x.re
    if len(q.n.t) != 1 or q.d:
        raise SymError("fractional power of a symbolic value that is not a monomial")
    (mono, coef), = q.n.t.items()
    k = Fraction(q.s) * Fraction(coef)
    if k <= 0:
        raise SymError("fractional power of a non-positive monomial")
    rr = Fraction(r).limit_denominator(4096)
    res = _lift(float(k) ** float(rr)) if k != 1 else _lift(1)
    for nv, e in mono:
        res = res * _pw_var(_varname(-nv), rr) ** e
    return res


def _log_atom(vname):
    """L(v) for a variable; L(pw(v0, r)) = r L(v0)"""
    c = ctx()
    pw = c.__dict__.get('pw_of', {}).get(vname)
    if pw is not None:
        return _log_atom(pw[0]) * _lift(pw[1])
    tab = c.__dict__.setdefault('log_vars', {})
    v = tab.get(vname)
    if v is None:
        v = Sym(Q.var("log_%s" % vname, kind='uf', fn='log'))
        tab[vname] = v
        from . import poly as P
        x = Sym(Q.make(P.get_var(vname)))
        # sign of the logarithm follows the position of its argument w.r.t. 1
        c.axioms.append(SymBool.any([SymBool.all([x > 1, v > 0]), SymBool.all([x == 1, v == 0]), SymBool.all([x < 1, v < 0])]))
    return v


def _log_poly(p):
    """log of a polynomial with positive value: monomial content split off, the primitive rest uninterpreted"""
    from . import poly as P
    prim, cont = P.content_split(p)
    if cont < 0:
        raise SymError("logarithm of a quantity with negative content")
    monos = list(prim.t)
    common = {}
    first = True
    for m in monos:
        d = dict(m)
        if first:
            common = d
            first = False
        else:
            common = {v: min(e, d[v]) for v, e in common.items() if v in d}
    res = _lift(float(np.log(float(cont)))) if cont != 1 else _lift(0)
    if common:
        rest = {}
        for m, cf in prim.t.items():
            d = dict(m)
            nm = tuple((v, d[v] - common.get(v, 0)) for v, _ in m if d[v] - common.get(v, 0) > 0)
            rest[nm] = cf
        prim = P.Poly(rest)
        for nv, e in common.items():
            res = res + _log_atom(_varname(-nv)) * e
    if not prim.is_const():
        c = ctx()
        k = ('log', ('poly', prim.key() if hasattr(prim, 'key') else tuple(sorted(prim.t.items()))))
        hit = c.uf_apps.get(k)
        if hit is None:
            v = Sym(Q.var(c.fresh_name('log'), kind='uf', fn='log'))
            c.uf_apps[k] = (v, Sym(Q.make(prim)))
            hit = c.uf_apps[k]
        res = res + hit[0]
    elif prim.const_value() != 1:
        res = res + _lift(float(np.log(float(prim.const_value()))))
    return res


def log_canon(x):
    if not x.im.is_zero():
        raise SymError("log of a complex symbolic value")
    q = x.re
    if q.s <= 0:
        raise SymError("logarithm of a quantity with a negative scalar factor")
    res = _log_poly(q.n)
    if q.s != 1:
        res = res + _lift(float(np.log(float(q.s))))
    for atom, e in q.d.items():
        res = res - _log_poly(atom) * e
    return res


def apply(name, x):
    if name == 'log' and not x.is_const() and getattr(ctx(), 'log_algebra', False):
        return log_canon(x)
    if x.is_const():
        v = x.const_value()
        if isinstance(v, complex):
            r = _NP[name](v)
        else:
            r = _NP[name](float(v))
        if isinstance(r, (float, np.floating)) and not np.isfinite(r):
            raise SymError("%s(%r) is not finite" % (name, v))
        return _lift(r.item() if hasattr(r, 'item') else r)
    if not x.im.is_zero():
        if name == 'exp' and x.re.is_zero():
            # exp(j y) = cos y + j sin y on the uninterpreted cos / sin, with cos^2 + sin^2 = 1 for this y
            y = Sym(x.im)
            cs, sn = apply('cos', y), apply('sin', y)
            c = ctx()
            k = ('unit-circle', _key(y.re))
            if k not in c.uf_apps:
                c.uf_apps[k] = (cs, y)
                c.axioms.append(SymBool.cmp('==', cs.re * cs.re + sn.re * sn.re - _q(1)))
                # ... and applied as a rewrite rule sin^2 -> 1 - cos^2, so that products of unit-circle numbers
                # normalise without the solver
                from . import poly as P
                idx = sorted({-nv for m in sn.re.n.t for nv, e in m})
                if len(idx) == 1 and not sn.re.d and len(sn.re.n.t) == 1 and cs.re.d == {} and not cs.is_const():
                    P.declare_quadratic(P.var_names()[idx[0]], P.Poly.const(1) - (cs.re.n * cs.re.n).scale(cs.re.s * cs.re.s))
            return Sym(cs.re, sn.re, True)
        raise SymError("%s of a complex symbolic value" % name)
    c = ctx()
    k = (name, _key(x.re))
    hit = c.uf_apps.get(k)
    if hit is not None:
        return hit[0]
    v = Sym(Q.var(c.fresh_name(name), kind='uf', fn=name))
    c.uf_apps[k] = (v, x)
    # universally valid range facts
    if name in ('cos', 'sin', 'tanh'):
        c.axioms.append(SymBool.cmp('<=', v.re - _q(1)))
        c.axioms.append(SymBool.cmp('<=', -v.re - _q(1)))
    if name in ('exp', 'cosh'):
        c.axioms.append(SymBool.cmp('<', -v.re))
    return v
