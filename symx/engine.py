"""Harness API, path exploration, claim -> query -> verdict -> replay."""
import hashlib
import json
import math
import os
import sys
import time
import traceback
from fractions import Fraction

import numpy as np

from . import poly as P
from . import smt
from .number import (Context, PathAbort, Sym, SymBool, SymError, set_ctx, ctx, as_sym, _q, SymZeroDivision)
from .poly import Q, q_eq_parts
from .array import SymArray

TOL = 1e-6
from .paths import REPO_SRC as _REPO_SRC


class Claim(object):
    __slots__ = ('label', 'kind', 'goal', 'pcs', 'axioms', 'note', 'sep')

    def __init__(self, label, kind, goal, pcs, axioms, note=None, sep=None):
        self.label = label
        self.kind = kind
        self.goal = goal            # SymBool: the NEGATED claim (sat => counterexample)
        self.pcs = pcs
        self.axioms = axioms
        self.note = note
        self.sep = sep              # optional stronger negation (well separated witness)


def _neg_eq(a, b, sep=False):
    """SymBool for a != b (fraction-free products left to the solver)"""
    a = as_sym(a)
    b = as_sym(b)
    parts = []
    for x, y in ((a.re, b.re), (a.im, b.im)):
        if x.is_zero() and y.is_zero():
            continue
        d = x - y
        if d.is_zero():
            # syntactically identical after normalisation
            continue
        parts.append(SymBool.cmp('!=', d))
    return SymBool.any(parts) if parts else SymBool.const(False)


class EqGoal(object):
    """negated equality kept un-subtracted: n1*m1 != n2*m2 emitted as products for the solver"""

    def __init__(self, a, b):
        self.a = as_sym(a)
        self.b = as_sym(b)

    def smt_parts(self, sep=None, rel=None):
        outs = []
        for x, y in ((self.a.re, self.b.re), (self.a.im, self.b.im)):
            if x.is_zero() and y.is_zero():
                continue
            n1, m1, n2, m2, dsc = q_eq_parts(x, y)
            l = "(* %s %s)" % (n1.smt(), m1.smt())
            r = "(* %s %s)" % (n2.smt(), m2.smt())
            if rel is not None:
                # |x - y| > rel * sqrt(2 (x^2 + y^2)) on the cross-multiplied sides (same positive common factor)
                outs.append("(> (* (- %s %s) (- %s %s)) (* %s (+ (* %s %s) (* %s %s))))" % (
                    l, r, l, r, P._smt_q(2 * Fraction(rel) ** 2), l, l, r, r))
            elif sep is None:
                outs.append("(not (= %s %s))" % (l, r))
            else:
                # |x - y| >= sep  <=> (n1 m1 - n2 m2)^2 >= sep^2 * L^2,  L = common denominator (with its scalar)
                L = "(* %d.0 (* %s %s))" % (dsc, m1.smt(), x.den_poly().smt())
                outs.append("(>= (* (- %s %s) (- %s %s)) (* %s (* %s %s)))" % (l, r, l, r, P._smt_q(Fraction(sep) ** 2), L, L))
        if not outs:
            return "false"
        return outs[0] if len(outs) == 1 else "(or %s)" % " ".join(outs)

    def vars(self):
        s = set()
        for q in (self.a.re, self.a.im, self.b.re, self.b.im):
            s |= q.n.vars()
            for a in q.d:
                s |= a.vars()
        return s

    def atoms(self):
        s = set()
        for q in (self.a.re, self.a.im, self.b.re, self.b.im):
            s |= set(q.d)
        return s

    def trivial(self):
        return (self.a.re - self.b.re).is_zero() and (self.a.im - self.b.im).is_zero()


class Harness(object):
    """passed to every case function.  mode 'sym' (symbolic run) or 'replay' (floats from a model)."""

    def __init__(self, mode, model=None, seed=0):
        self.mode = mode
        self.model = model or {}
        self.claims = []
        self.fails = []          # replay: (label, detail)
        self.checked = []        # replay: labels evaluated
        self.notes = []
        self.inputs = {}
        self.assumption_failed = None
        self._default_i = 0

    # -- inputs
    def _val(self, name, default):
        if name in self.model:
            return float(Fraction(self.model[name]))
        return default

    def _next_default(self):
        self._default_i += 1
        return 0.37 + 0.29 * ((self._default_i * 7) % 11) - 1.3

    def real(self, name, positive=False, nonzero=False, lo=None, hi=None):
        if self.mode == 'sym':
            v = Sym.real_var(name, kind='input')
            c = ctx()
            if positive:
                c.assume(v > 0, "%s > 0" % name)
            if nonzero:
                c.assume(v != 0, "%s != 0" % name)
            if lo is not None:
                c.assume(v >= lo)
            if hi is not None:
                c.assume(v <= hi)
            return v
        d = self._next_default()
        if positive:
            d = abs(d) + 0.5
        if lo is not None and hi is not None:
            d = (lo + hi) / 2.0
        elif lo is not None:
            d = max(d, lo + 0.5)
        elif hi is not None:
            d = min(d, hi - 0.5)
        v = self._val(name, d)
        self.inputs[name] = v
        # a supplied value must satisfy the declared domain, otherwise the replay is not a counterexample
        if positive:
            self.assume(v > 0, "%s > 0" % name)
        if nonzero:
            self.assume(v != 0, "%s != 0" % name)
        if lo is not None:
            self.assume(v >= lo, "%s >= %r" % (name, lo))
        if hi is not None:
            self.assume(v <= hi, "%s <= %r" % (name, hi))
        return v

    def cplx(self, name):
        if self.mode == 'sym':
            return Sym.complex_var(name, kind='input')
        re = self._val(name + "_re", self._next_default())
        im = self._val(name + "_im", self._next_default())
        self.inputs[name] = [re, im]
        return complex(re, im)

    def real_vec(self, name, n):
        if self.mode == 'sym':
            return SymArray.make([Sym.real_var("%s%d" % (name, i), kind='input') for i in range(n)])
        v = np.array([self._val("%s%d" % (name, i), self._next_default()) for i in range(n)], dtype=float)
        self.inputs[name] = v.tolist()
        return v

    def int_vec(self, name, n):
        """integer-dtype data (numpy int64 array): Int-sorted symbols; the array reports dtype int64 to the code"""
        if self.mode == 'sym':
            a = SymArray.make([Sym.real_var("%s%d" % (name, i), kind='input', integer=True) for i in range(n)])
            a._ikind = True
            return a
        v = np.array([int(round(self._val("%s%d" % (name, i), float(3 * ((self._default_i + i) % 5) - 5 + i)))) for i in range(n)],
                     dtype=np.int64)
        self._default_i += n
        self.inputs[name] = [int(t) for t in v]
        return v

    def complex_vec(self, name, n):
        if self.mode == 'sym':
            return SymArray.make([Sym.complex_var("%s%d" % (name, i), kind='input') for i in range(n)], cplx=True)
        v = np.array([complex(self._val("%s%d_re" % (name, i), self._next_default()),
                              self._val("%s%d_im" % (name, i), self._next_default())) for i in range(n)], dtype=complex)
        self.inputs[name] = [[z.real, z.imag] for z in v]
        return v

    def vec(self, name, n, cplx):
        return self.complex_vec(name, n) if cplx else self.real_vec(name, n)

    BASE = [1.0, -0.5, 2.0, 0.75, -1.25, 0.5, 1.5, -2.0, 0.25, 1.75, -0.75, 1.25, -1.5, 2.25, 0.375, -1.0]

    def mixed_vec(self, name, n, cplx, nsym, offset=0):
        """data vector whose first `nsym` samples are free symbols and whose remaining samples are fixed dyadic
        constants (used where a fully symbolic vector is out of reach: the verdict then covers every value of the
        symbolic samples with the other samples pinned - stated in the bounds)"""
        nsym = min(nsym, n)
        if self.mode == 'sym':
            els = []
            for i in range(n):
                if i < nsym:
                    els.append(Sym.complex_var("%s%d" % (name, i), kind='input') if cplx
                               else Sym.real_var("%s%d" % (name, i), kind='input'))
                else:
                    b = self.BASE[(i + offset) % len(self.BASE)]
                    els.append(complex(b, self.BASE[(i + offset + 5) % len(self.BASE)]) if cplx else b)
            return SymArray.make(els, cplx=cplx)
        vals = []
        for i in range(n):
            if i < nsym:
                if cplx:
                    vals.append(complex(self._val("%s%d_re" % (name, i), self._next_default()),
                                        self._val("%s%d_im" % (name, i), self._next_default())))
                else:
                    vals.append(self._val("%s%d" % (name, i), self._next_default()))
            else:
                b = self.BASE[(i + offset) % len(self.BASE)]
                vals.append(complex(b, self.BASE[(i + offset + 5) % len(self.BASE)]) if cplx else b)
        v = np.array(vals, dtype=complex if cplx else float)
        self.inputs[name] = [[z.real, z.imag] for z in v] if cplx else v.tolist()
        return v

    def const_vec(self, values, cplx=False):
        """concrete data entering as exact constants"""
        if self.mode == 'sym':
            return SymArray.make(list(values), cplx=cplx)
        return np.array(values, dtype=complex if cplx else float)

    # -- assumptions
    def assume(self, cond, note=None):
        if self.mode == 'sym':
            ctx().assume(cond, note)
        else:
            if isinstance(cond, SymBool):
                cond = cond.const_value() if cond.is_const() else True
            if not cond:
                self.assumption_failed = note or "assumption"
                raise PathAbort("assumption false in replay")

    def assume_nonzero_vec(self, x, note="data not identically zero"):
        if self.mode == 'sym':
            ctx().assume(SymBool.any([as_sym(e) != 0 for e in x]), note)
        else:
            self.assume(bool(np.any(np.asarray(x) != 0)), note)

    # -- claims
    def _snapshot(self):
        c = ctx()
        return list(c.path_condition()), list(c.axioms)

    def claim_eq(self, label, a, b, note=None):
        if self.mode == 'sym':
            g = EqGoal(a, b)
            pcs, ax = self._snapshot()
            self.claims.append(Claim(label, 'eq', g, pcs, ax, note))
        else:
            self.checked.append(label)
            a = complex(a)
            b = complex(b)
            if not (abs(a - b) <= TOL * (1 + abs(b))):
                self.fails.append((label, "got %r expected %r" % (a, b)))

    def claim_vec_eq(self, label, a, b, note=None):
        la, lb = len(a), len(b)
        if la != lb:
            self.fail(label + ":len", "length %d != %d" % (la, lb))
            return
        for i in range(la):
            self.claim_eq("%s[%d]" % (label, i), a[i], b[i], note)

    def claim_true(self, label, cond, note=None):
        """cond: bool or SymBool that must hold"""
        if self.mode == 'sym':
            if not isinstance(cond, SymBool):
                cond = SymBool.const(bool(cond))
            pcs, ax = self._snapshot()
            self.claims.append(Claim(label, 'true', cond.negate(), pcs, ax, note))
        else:
            self.checked.append(label)
            if isinstance(cond, SymBool):
                cond = cond.const_value()
            if not cond:
                self.fails.append((label, "condition false"))

    def claim_le(self, label, a, b, note=None, tol=TOL):
        if self.mode == 'sym':
            self.claim_true(label, as_sym(a) <= as_sym(b), note)
        else:
            self.checked.append(label)
            if not (float(np.real(a)) <= float(np.real(b)) + tol * (1 + abs(b))):
                self.fails.append((label, "%r > %r" % (a, b)))

    def claim_lt(self, label, a, b, note=None, tol=TOL):
        if self.mode == 'sym':
            self.claim_true(label, as_sym(a) < as_sym(b), note)
        else:
            self.checked.append(label)
            if not (float(np.real(a)) < float(np.real(b)) - tol * (1 + abs(b))):
                # strictness cannot be resolved below the tolerance in floats: only clear failures count
                if float(np.real(a)) > float(np.real(b)) + tol * (1 + abs(b)) or float(np.real(a)) == float(np.real(b)):
                    self.fails.append((label, "%r >= %r" % (a, b)))

    def claim_real(self, label, a, note=None):
        if self.mode == 'sym':
            self.claim_eq(label, as_sym(a).imag, 0, note)
        else:
            self.checked.append(label)
            if abs(np.imag(a)) > TOL * (1 + abs(a)):
                self.fails.append((label, "imaginary part %r" % (np.imag(a),)))

    def fail(self, label, detail=""):
        """unconditional failure on this path (e.g. wrong length, unexpected exception)"""
        if self.mode == 'sym':
            pcs, ax = self._snapshot()
            self.claims.append(Claim(label, 'fail', SymBool.const(True), pcs, ax, detail))
        else:
            self.checked.append(label)
            self.fails.append((label, detail))

    def note(self, s):
        self.notes.append(s)

    def let(self, name, value):
        """abstraction: a fresh symbol constrained to equal `value` (keeps structure such as sums of squares
        visible to the solver); identity in replay mode"""
        if self.mode != 'sym':
            return value
        value = as_sym(value)
        c = ctx()
        nm = c.fresh_name(name)
        if value.cplx:
            v = Sym(Q.var(nm + "_re", kind='let'), Q.var(nm + "_im", kind='let'), True)
        else:
            v = Sym(Q.var(nm, kind='let'))
        c.axioms.append(v == value)
        return v

    # -- helpers usable in both modes
    def is_sym(self):
        return self.mode == 'sym'

    def zero(self):
        return Sym(_q(0)) if self.mode == 'sym' else 0.0

    def abs2(self, z):
        if isinstance(z, Sym):
            return z.abs2()
        return (z * np.conjugate(z)).real if isinstance(z, (complex, np.complexfloating)) else z * z

    def re(self, z):
        return z.real

    def im(self, z):
        return z.imag


# ---------------------------------------------------------------------------
def _feasible_factory(timeout_s, stats):
    cache = {}

    def feasible(conds):
        if any(c.is_const() and not c.const_value() for c in conds):
            return 'unsat'
        text, _ = smt.build_query([], conds, None)
        h = hashlib.sha1(text.encode()).hexdigest()
        if h in cache:
            return cache[h]
        r = smt.solve(text, timeout_s, want_model=False)
        stats['feasibility_queries'] = stats.get('feasibility_queries', 0) + 1
        stats['feasibility_time'] = stats.get('feasibility_time', 0.0) + r[2]
        cache[h] = r[0] if r[0] in ('sat', 'unsat') else 'unknown'
        return cache[h]
    return feasible


def explore(fn, params, max_paths=64, feas_timeout=10.0, stats=None, max_decisions=200):
    """run case function fn(h, **params) once per feasible path.  Yields (harness, context, outcome)."""
    stats = stats if stats is not None else {}
    feasible = _feasible_factory(feas_timeout, stats)
    stack = [[]]
    npaths = 0
    while stack:
        prefix = stack.pop()
        if npaths >= max_paths:
            stats['paths_cut'] = stats.get('paths_cut', 0) + 1 + len(stack)
            break
        P.reset_vars()
        c = Context(prefix, feasible, max_decisions=max_decisions)
        set_ctx(c)
        h = Harness('sym')
        outcome = 'ok'
        try:
            fn(h, **params)
        except PathAbort as e:
            outcome = 'cut' if c.cut else 'infeasible'
        except SymError as e:
            outcome = 'unmodelled: %s' % e
        except SymZeroDivision as e:
            outcome = 'unmodelled: structural zero division'
        except Exception as e:
            tb = traceback.extract_tb(sys.exc_info()[2])
            where = "%s:%d" % (os.path.basename(tb[-1].filename), tb[-1].lineno) if tb else "?"
            last = tb[-1].filename if tb else ""
            msg = str(e)
            symbolic_operand = isinstance(e, (TypeError, AttributeError, ValueError)) and any(
                t in msg for t in ("LazyVec", "SymArray", "'Sym'", "SymBool", "SymBuffer", "sym_float", "sym_int", "sym_complex"))
            if symbolic_operand:
                # a C-level numpy routine refused a symbolic operand: the frame it surfaces in is the repo's, the cause is ours
                outcome = 'unmodelled: %s: %s at %s (library routine applied to a symbolic operand)' % (type(e).__name__, msg[:200], where)
            elif last.startswith(_REPO_SRC):
                outcome = 'error: %s: %s at %s' % (type(e).__name__, str(e)[:200], where)
            elif any(f.filename.startswith(_REPO_SRC) for f in tb):
                outcome = 'unmodelled: %s: %s at %s (raised inside the symbolic layer / a library)' % (
                    type(e).__name__, str(e)[:200], where)
            else:
                outcome = 'harness-bug: %s: %s at %s' % (type(e).__name__, str(e)[:200], where)
        for alt in c.pending:
            stack.append(alt)
        npaths += 1
        yield h, c, outcome
        set_ctx(None)
    set_ctx(None)


def pins_from_inputs(inputs):
    """the inputs a float replay recorded (name -> value | list | [re, im] pairs) as exact rationals per variable name"""
    from fractions import Fraction
    pin = {}

    def fr(v):
        return Fraction(float(v))
    for name, v in (inputs or {}).items():
        if isinstance(v, (int, float)):
            pin[name] = fr(v)
        elif isinstance(v, (list, tuple)):
            if len(v) == 2 and all(isinstance(t, (int, float)) for t in v):
                # either a complex scalar [re, im] or a real vector of length 2: provide both spellings
                pin[name + "_re"], pin[name + "_im"] = fr(v[0]), fr(v[1])
                pin[name + "0"], pin[name + "1"] = fr(v[0]), fr(v[1])
            else:
                for i, t in enumerate(v):
                    if isinstance(t, (list, tuple)) and len(t) == 2:
                        pin["%s%d_re" % (name, i)], pin["%s%d_im" % (name, i)] = fr(t[0]), fr(t[1])
                    elif isinstance(t, (int, float)):
                        pin["%s%d" % (name, i)] = fr(t)
    return pin


def run_exact(fn, params, inputs, label):
    """re-run a case in the symbolic layer with every input pinned to the exact rational value a float probe used.
    -> 'holds' (every claim carrying `label` is exactly true on these inputs), 'fails' (one is exactly false),
       'singular' (an exact zero divisor is met: the point is outside the domain of the computation),
       'unknown' (a claim still contains symbols - roots, uninterpreted values -, or the run did not reach the label)"""
    P.reset_vars()
    c = Context([], None, max_decisions=400)
    c.pin = pins_from_inputs(inputs)
    set_ctx(c)
    h = Harness('sym')
    try:
        try:
            fn(h, **params)
        except SymZeroDivision:
            return 'singular'           # exact arithmetic divides by zero on these inputs: the float run computed on rounding noise
        except BaseException:
            return 'unknown'
        if c.decisions:
            return 'unknown'            # a branch on a value that is still symbolic
        verdicts = []
        for cl in h.claims:
            if cl.label != label:
                continue
            if cl.kind == 'eq':
                g = cl.goal
                d_re, d_im = g.a.re - g.b.re, g.a.im - g.b.im
                if not (d_re.is_const() and d_im.is_const()):
                    return 'unknown'
                verdicts.append(d_re.is_zero() and d_im.is_zero())
            else:
                return 'unknown'
        if not verdicts:
            return 'unknown'
        return 'holds' if all(verdicts) else 'fails'
    finally:
        set_ctx(None)


def claim_query(cl, sep=None, twin=False, rel=None):
    """SMT text for a claim (negated) or for its reachability twin"""
    nz = not (cl.note == "no-atoms")
    if twin:
        return smt.build(cl.axioms, cl.pcs, None, atoms_nonzero=nz)
    if cl.kind == 'eq':
        g = cl.goal
        return smt.build(cl.axioms, cl.pcs, g.smt_parts(sep, rel), g.vars(), g.atoms(), atoms_nonzero=nz)
    return smt.build(cl.axioms, cl.pcs, cl.goal.smt(), smt.sb_vars(cl.goal), smt.sb_atoms(cl.goal), atoms_nonzero=nz)


def box_text(names, bound=8):
    out = []
    for n in names:
        if P.var_meta(n).get('kind') == 'input':
            out.append("(assert (and (<= (- %d.0) %s) (<= %s %d.0)))" % (bound, n, n, bound))
    return "\n".join(out) + "\n"


def exclude_text(model, names, radius="0.25"):
    """assert that some input variable differs from its value in `model` by at least `radius`"""
    from fractions import Fraction
    parts = []
    for n in names:
        if P.var_meta(n).get('kind') != 'input' or n not in (model or {}):
            continue
        try:
            v = Fraction(model[n])
        except Exception:
            continue
        lit = P._smt_q(v)
        parts.append("(>= (- %s %s) %s)" % (n, lit, radius))
        parts.append("(<= (- %s %s) (- %s))" % (n, lit, radius))
    if not parts:
        return ""
    return "(assert (or %s))\n" % " ".join(parts)
