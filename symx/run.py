"""Check runner:  python -m symx.run <Cxx> quick|thorough   |   python -m symx.run <Cxx> --replay <file>"""
import concurrent.futures as cf
import fnmatch
import hashlib
import importlib
import json
import multiprocessing as mp
import os
import subprocess
import sys
import time
import traceback

ROOT = os.path.dirname(os.path.dirname(os.path.abspath(__file__)))
sys.path.insert(0, ROOT)

EXIT_OK, EXIT_VIOLATION, EXIT_HARNESS = 0, 1, 3
from symx.paths import REPO_PKG as _REPO_PKG


class Case(object):
    def __init__(self, name, fn, params=None, timeout=60.0, max_paths=64, feas_timeout=10.0, twiddle_base=None,
                 expect_sat=False, lemma=False, max_decisions=200, cvc5=False, max_replays=3, wall=None):
        self.name = name
        self.fn = fn
        self.params = params or {}
        self.timeout = timeout
        self.max_paths = max_paths
        self.feas_timeout = feas_timeout
        self.expect_sat = expect_sat      # witness twin: the claim MUST come back violated (vacuity guard)
        self.lemma = lemma                # claims over fresh symbols only: a sat is inconclusive, not a violation
        self.max_decisions = max_decisions
        self.cvc5 = cvc5
        self.max_replays = max_replays
        self.wall = wall                  # wall-clock budget for the whole case (s); None = 4x timeout + 120


def load_check(cid):
    return importlib.import_module("checks.%s" % cid)


def list_cases(cid, tier, seed):
    mod = load_check(cid)
    return list(mod.cases(tier, seed))


# ---------------------------------------------------------------------------
_FUNCS = set()


def _start_monitor():
    try:
        mon = sys.monitoring
        tid = mon.PROFILER_ID
        mon.use_tool_id(tid, "symx")

        def on_start(code, off):
            fn = code.co_filename
            if fn.startswith(_REPO_PKG):
                _FUNCS.add("%s:%s" % (os.path.basename(fn), code.co_qualname))
            return mon.DISABLE
        mon.register_callback(tid, mon.events.PY_START, on_start)
        mon.set_events(tid, mon.events.PY_START)
    except Exception:
        pass


REL_SLACK = 1e-9


def run_case(args):
    """worker: explore one case symbolically, solve its claims, replay counterexamples."""
    cid, tier, seed, idx = args
    t_case = time.time()
    from symx import loader, engine, smt, stubs, poly as P
    loader.install()
    _start_monitor()
    cases = list_cases(cid, tier, seed)
    case = cases[idx]
    recs = []
    stats = {}
    seen = {}
    paths = 0
    outcomes = {}
    nreplays = 0
    unknown_probes = 0
    unreplayed = []
    from fractions import Fraction
    import signal

    class CaseTimeout(BaseException):
        pass

    def _on_alarm(signum, frame):
        raise CaseTimeout()
    budget = case.wall if case.wall else 4 * case.timeout + 120
    signal.signal(signal.SIGALRM, _on_alarm)
    signal.setitimer(signal.ITIMER_REAL, budget)
    try:
        for h, c, outcome in engine.explore(case.fn, case.params, case.max_paths, case.feas_timeout, stats,
                                            case.max_decisions):
            paths += 1
            okey = outcome.split(':')[0]
            outcomes[okey] = outcomes.get(okey, 0) + 1
            if outcome == 'infeasible':
                continue
            if outcome == 'cut':
                # beyond the stated decision bound (e.g. more iterations of a data-dependent loop): outside the claim
                recs.append(dict(case=case.name, label='<path>', verdict='cut', why='path exceeds the decision bound %d' % case.max_decisions,
                                 path=[t for t, _ in c.decisions]))
            if outcome.startswith('unmodelled'):
                recs.append(dict(case=case.name, label='<path>', verdict='inconclusive', why=outcome,
                                 path=[t for t, _ in c.decisions]))
                # claims made before the cut are still solved below
            if outcome.startswith('harness-bug'):
                recs.append(dict(case=case.name, label='<path>', verdict='harness-error', why=outcome,
                                 path=[t for t, _ in c.decisions]))
            if outcome.startswith('error'):
                pcs, ax = list(c.path_condition()), list(c.axioms)
                lab = "unexpected-exception:" + outcome.split(':')[1].strip()
                from symx.number import SymBool
                h.claims.append(engine.Claim(lab, 'fail', SymBool.const(True), pcs, ax, outcome))
            twin_done = None
            if h.claims:
                # vacuity guard first: the path's reachability twin (axioms + path condition, no claim)
                ttext, _ = engine.claim_query(h.claims[-1], twin=True)
                tr, _, ts, _ = smt.solve(ttext, min(case.timeout, 15), want_model=False)
                twin_done = tr
                stats['twin_queries'] = stats.get('twin_queries', 0) + 1
                if tr == 'unsat':
                    outcomes['vacuous'] = outcomes.get('vacuous', 0) + 1
                    continue
                if tr == 'sat':
                    stats['reachable_paths'] = stats.get('reachable_paths', 0) + 1
            for cl in h.claims:
                text, names = engine.claim_query(cl)
                key = hashlib.sha1((cl.label + text).encode()).hexdigest()
                if key in seen:
                    continue
                seen[key] = True
                rec = dict(case=case.name, label=cl.label, kind=cl.kind, path=[t for t, _ in c.decisions],
                           nvars=len(names), size=len(text))
                trivial_goal = (cl.kind != 'eq' and cl.goal.is_const() and not cl.goal.const_value())
                if trivial_goal:
                    rec.update(verdict='unsat', solver='constant-folded', seconds=0.0, trivial=True)
                    recs.append(rec)
                    continue
                r, model, secs, how = smt.solve(text, case.timeout, want_model=True)
                rec.update(verdict=r, solver=how, seconds=round(secs, 3))
                if cl.kind == 'eq':
                    rec['syntactic_normal_form_equal'] = cl.goal.trivial()
                if r == 'error':
                    rec['verdict'] = 'inconclusive'
                    rec['why'] = 'solver error: %s' % (model,)
                elif r == 'unknown':
                    rec['verdict'] = 'inconclusive'
                    rec['why'] = 'solver unknown/timeout (%s)' % (model if isinstance(model, str) else 'budget %ss' % case.timeout)
                    # the solver could neither prove the claim nor produce a model.  A pass is never inferred from
                    # this; but to avoid missing a real violation we try a few concrete inputs on the unpatched
                    # code (an ordinary replay with generated inputs).  Only a reproduced failure of THIS claim counts.
                    if not case.lemma and not case.expect_sat and unknown_probes < 2:
                        unknown_probes += 1
                        import random as _rnd
                        rg = _rnd.Random(hash((case.name, cl.label)) & 0xffff)
                        for attempt in range(4):
                            guess = {}
                            for nme in names:
                                if P.var_meta(nme).get('kind') == 'input':
                                    guess[nme] = str(Fraction(rg.randint(-12, 12), 8) + (Fraction(1, 3) if attempt % 2 else 0))
                            rep = replay_model(cid, case, guess, tier, seed)
                            labels = [f[0] for f in (rep.get('fails') or [])]
                            if cl.label in labels:
                                # a float failure on a random point can be ill-conditioning rather than a defect: the same
                                # inputs are pushed through the symbolic layer as exact rationals; only a failure that is
                                # not refuted in exact arithmetic is reported
                                ex = _exact_confirm(case, rep, cl.label)
                                if ex in ('holds', 'singular'):
                                    rec['float_artefacts'] = rec.get('float_artefacts', 0) + 1
                                    continue
                                rec.update(verdict='violation', model=guess, replay=rep, exact_rerun=ex,
                                           why='solver unknown; counterexample found by concrete probing and replayed')
                                break
                elif r == 'unsat':
                    sample = (tier == 'thorough' and int(key[:6], 16) % 20 == (seed % 20) and '__int' not in text)
                    if case.cvc5 or sample:
                        # second opinion: cvc5 on the same SMT-LIB text (thorough tier: a deterministic 5 % sample)
                        r2, _, s2, _ = smt.solve(text, min(case.timeout, 60), want_model=False, solver="cvc5")
                        rec['cvc5'] = r2
                        rec['cvc5_seconds'] = round(s2, 3)
                        if r2 == 'sat':
                            rec['verdict'] = 'harness-error'
                            rec['why'] = 'solver disagreement: z3 unsat, cvc5 sat'
                    rec['twin'] = twin_done
                elif r == 'sat':
                    if case.lemma:
                        rec['verdict'] = 'inconclusive'
                        rec['why'] = 'lemma over fresh symbols has a counterexample (not a violation)'
                        rec['model'] = model
                    elif nreplays >= case.max_replays:
                        rec['verdict'] = 'sat-unreplayed'
                        rec['why'] = 'replay cap for this case reached (earlier counterexamples of the case were replayed)'
                        unreplayed.append((rec, cl))
                    else:
                        nreplays += 1
                        # try for a well separated witness first
                        if cl.kind == 'eq':
                            stext, snames = engine.claim_query(cl, sep=1e-3)
                            stext = stext + engine.box_text(snames)
                            sr, smodel, ssecs, _ = smt.solve(stext, min(case.timeout, 30), want_model=True)
                            rec['separated'] = sr
                            if sr == 'sat':
                                model = smodel
                        rec['model'] = model
                        rep = replay_model(cid, case, model, tier, seed)
                        # a model may sit on a point where the float code happens to agree (uninterpreted-function
                        # values in a model are arbitrary): ask for counterexamples at other inputs before giving up
                        tries = 0
                        excl = ""
                        cur = model
                        while not rep.get('reproduced') and tries < 3 and not case.expect_sat:
                            tries += 1
                            excl += engine.exclude_text(cur, names)
                            if not excl:
                                break
                            r3, m3, s3, _ = smt.solve(text + excl, min(case.timeout, 30), want_model=True)
                            if r3 != 'sat':
                                break
                            cur = m3
                            rep3 = replay_model(cid, case, m3, tier, seed)
                            if rep3.get('reproduced'):
                                rep, model = rep3, m3
                                rec['model'] = m3
                                rec['retries'] = tries
                        rec['replay'] = rep
                        if rep.get('reproduced'):
                            rec['verdict'] = 'violation'
                        elif case.expect_sat:
                            rec['verdict'] = 'violation'    # witness twins only need the sat
                        else:
                            rec['verdict'] = 'unreproduced'
                            if cl.kind == 'eq':
                                # the exact-real model and the float code can differ by the rounding of a float CONSTANT
                                # (math.sqrt(8), 1./3): a counterexample that the real code does not reproduce is re-posed
                                # with a relative slack far below the replay tolerance; only if even that is refuted does the
                                # claim count as decided - and it is reported as such
                                rtext, _ = engine.claim_query(cl, rel=REL_SLACK)
                                rr, _, rs, _ = smt.solve(rtext, min(case.timeout, 60), want_model=False)
                                rec['relative_slack_query'] = rr
                                if rr == 'unsat':
                                    rec['verdict'] = 'unsat'
                                    rec['solver'] = 'z3'
                                    rec['decided_up_to_relative'] = REL_SLACK
                                    rec['why'] = ('exact equality has a non-reproducing counterexample (float constant); '
                                                  'holds for every input up to relative %g' % REL_SLACK)
                recs.append(rec)
            # counterexamples left unreplayed because of the replay cap only ride on a reproduced violation of the same
            # case; when none of the replayed ones reproduced they must not be dropped silently. Done per path: the
            # claims' polynomials are only valid until the next path re-creates the variables.
            if unreplayed and not any(r_['verdict'] == 'violation' for r_ in recs):
                for rec_, cl_ in unreplayed:
                    rec_['verdict'] = 'unreproduced'
                    rec_['why'] = 'counterexample not replayed (cap) and no counterexample of this case reproduced'
                    if cl_.kind == 'eq':
                        rtext, _ = engine.claim_query(cl_, rel=REL_SLACK)
                        rr, _, rs, _ = smt.solve(rtext, min(case.timeout, 60), want_model=False)
                        rec_['relative_slack_query'] = rr
                        if rr == 'unsat':
                            rec_['verdict'] = 'unsat'
                            rec_['solver'] = 'z3'
                            rec_['decided_up_to_relative'] = REL_SLACK
                            rec_['why'] = ('exact equality has a non-reproducing counterexample (float constant); '
                                           'holds for every input up to relative %g' % REL_SLACK)
            unreplayed = []
    except CaseTimeout:
        recs.append(dict(case=case.name, label='<case>', verdict='inconclusive',
                         why='case wall-clock budget (%ds) exceeded during symbolic execution / solving' % budget))
    except BaseException as e:        # noqa
        recs.append(dict(case=case.name, label='<case>', verdict='harness-error',
                         why="%s: %s" % (type(e).__name__, traceback.format_exc()[-1500:])))
    signal.setitimer(signal.ITIMER_REAL, 0)
    # the encoding could not follow the code (an unmodelled library call, an exploded expression, a timeout):
    # nothing is concluded from that, but the case is at least exercised on a few concrete inputs against the
    # unpatched code so that a plain violation is not missed behind an INCONCLUSIVE line
    if (not case.lemma and not case.expect_sat
            and any(r['verdict'] == 'inconclusive' and r['label'] in ('<path>', '<case>') for r in recs)
            and not any(r['verdict'] == 'violation' for r in recs)):
        import random as _rnd
        rg = _rnd.Random(hash(case.name) & 0xffff)
        for attempt in range(3):
            guess = {}
            if attempt:
                for nme in P.var_names():
                    if P.var_meta(nme).get('kind') == 'input':
                        guess[nme] = str(Fraction(rg.randint(-12, 12), 8) + Fraction(1, 3))
            rep = replay_model(cid, case, guess, tier, seed)
            if rep.get('reproduced') and rep.get('fails'):
                lab = rep['fails'][0][0]
                ex = _exact_confirm(case, rep, lab)
                if ex in ('holds', 'singular'):
                    continue        # exact arithmetic on the same inputs satisfies the claim (or divides by zero): float noise, not a defect
                recs.append(dict(case=case.name, label=lab, kind='probe', verdict='violation', model=guess, replay=rep, exact_rerun=ex,
                                 why='symbolic run inconclusive; violation found by concrete probing of the case and replayed'))
                break
    # vacuity at case level: the explored paths partition the inputs, so an unsat on a path whose own
    # reachability is undecided is still sound; but at least one path of the case must be shown reachable,
    # otherwise unsatisfiable assumptions could make everything pass
    if any(r.get('verdict') == 'unsat' and r.get('solver') for r in recs) and not stats.get('reachable_paths'):
        # the solver could not exhibit a point on any path: fall back to an explicit concrete witness -
        # run the case on default float inputs against the unpatched code; reaching a claim with every
        # assumption satisfied shows the harness assumptions are satisfiable
        from symx import replay as _rp
        wit = _rp.run_forked(case, {})
        if wit.get('checked', 0) > 0 and not wit.get('aborted') and not wit.get('error'):
            stats['reachable_paths'] = 1
            stats['reachability_by_concrete_witness'] = 1
    if any(r.get('verdict') == 'unsat' and r.get('solver') for r in recs) and not stats.get('reachable_paths'):
        for r in recs:
            if r.get('verdict') == 'unsat' and r.get('solver'):
                r['verdict'] = 'inconclusive'
                r['why'] = 'no path of this case has a satisfiable reachability twin (cannot exclude a vacuous pass)'
    if not any(r.get('solver') for r in recs) and not any(r['verdict'] in ('inconclusive', 'harness-error') for r in recs):
        recs.append(dict(case=case.name, label='<case>', verdict='inconclusive',
                         why='no claim was reached on any feasible path (vacuous case)'))
    if case.expect_sat:
        # invert: a witness twin passes iff some claim came back violated/sat
        got = any(r.get('verdict') in ('violation', 'unreproduced') for r in recs)
        recs = [dict(case=case.name, label='<witness-twin>', kind='witness', verdict='unsat' if got else 'inconclusive',
                     why=None if got else 'witness twin did not produce the expected counterexample',
                     witness=True, seconds=sum(r.get('seconds', 0) for r in recs), solver='z3',
                     detail=[(r.get('label'), r.get('verdict')) for r in recs][:6])]
    smt.shutdown()
    return dict(case=case.name, records=recs, stats=stats, paths=paths, outcomes=outcomes,
                funcs=sorted(_FUNCS), stubs=sorted(stubs.USED), wall=time.time() - t_case)


def _exact_confirm(case, rep, label):
    """'holds' / 'fails' / 'unknown' for the claim `label` on the inputs of a float replay, in exact rational arithmetic"""
    from symx import replay
    try:
        return replay.run_exact_forked(case, rep.get('inputs'), label)
    except BaseException:      # noqa
        return 'unknown'


def replay_model(cid, case, model, tier, seed, save=None):
    from symx import replay
    return replay.run_forked(case, model)


# ---------------------------------------------------------------------------
def load_known():
    path = os.path.join(ROOT, "known_findings.json")
    if not os.path.exists(path):
        return []
    return json.load(open(path))


def main(argv):
    if len(argv) >= 3 and argv[1] == '--replay':
        from symx import replay
        return replay.cli(argv[0], argv[2])
    cid = argv[0]
    tier = argv[1] if len(argv) > 1 else os.environ.get("VERIF_TIER", "quick")
    seed = int(os.environ.get("VERIF_SEED", "0"))
    t0 = time.time()
    mod = load_check(cid)
    cases = list_cases(cid, tier, seed)
    workers = int(os.environ.get("VERIF_WORKERS", "16"))
    deadline = t0 + float(getattr(mod, 'BUDGET', {}).get(tier, 900 if tier == 'quick' else 3600))
    results = []
    skipped = []
    ctxm = mp.get_context("fork")
    with cf.ProcessPoolExecutor(max_workers=workers, mp_context=ctxm) as ex:
        futs = {}
        for i, c in enumerate(cases):
            futs[ex.submit(run_case, (cid, tier, seed, i))] = c
        done = 0
        for f in cf.as_completed(futs):
            done += 1
            if done % 200 == 0 or done == len(cases):
                sys.stderr.write("[%s %s] %d/%d cases, %.0fs\n" % (cid, tier, done, len(cases), time.time() - t0))
                sys.stderr.flush()
            try:
                results.append(f.result())
            except Exception as e:
                results.append(dict(case=futs[f].name, records=[dict(case=futs[f].name, label='<case>',
                               verdict='harness-error', why=repr(e))], stats={}, paths=0, outcomes={}, funcs=[],
                               stubs=[], wall=0))
    return finish(cid, tier, seed, mod, cases, results, t0)


def finish(cid, tier, seed, mod, cases, results, t0):
    known = [k for k in load_known() if k.get('property') == cid]
    recs = [r for res in results for r in res['records']]
    counts = {}
    for r in recs:
        counts[r['verdict']] = counts.get(r['verdict'], 0) + 1
    violations = []
    known_hits = {}
    for r in recs:
        if r['verdict'] != 'violation':
            continue
        fails = (r.get('replay') or {}).get('fails') or [[r['label'], '']]
        flabels = [f[0] for f in fails]
        if r['label'] in flabels or r.get('kind') == 'witness':
            keys = ["%s::%s" % (r['case'], r['label'])]
        else:
            keys = ["%s::%s" % (r['case'], l) for l in flabels]
        r['keys'] = keys
        hit = None
        for k in known:
            if k.get('status') != 'known':
                continue
            if all(any(fnmatch.fnmatchcase(key, pat) for pat in k['keys']) for key in keys):
                hit = k
                break
        if hit is not None:
            known_hits.setdefault(hit['id'], []).append(keys[-1])
        else:
            violations.append(r)
    os.makedirs(os.path.join(ROOT, "replays"), exist_ok=True)
    out_lines = []
    for kid, hits in sorted(known_hits.items()):
        k = [x for x in known if x['id'] == kid][0]
        out_lines.append("KNOWN-FINDING: property=%s %s [%s; %d matching counterexample(s), e.g. %s]" % (
            cid, k['what'], kid, len(hits), hits[0]))
    seen_v = set()
    per_case = {}
    for r in violations:
        per_case[r['case']] = per_case.get(r['case'], 0) + 1
    shown_cases = set()
    for r in violations:
        if r['case'] in shown_cases:
            continue            # one line per case; every violating claim is in the evidence / replay file
        shown_cases.add(r['case'])
        body = dict(check=cid, case=r['case'], label=r['label'], tier=tier, seed=seed, model=r.get('model'),
                    replay=r.get('replay'))
        hsh = hashlib.sha1(json.dumps([r['case'], r['label']], sort_keys=True).encode()).hexdigest()[:12]
        path = os.path.join(ROOT, "replays", "%s-%s.json" % (cid, hsh))
        if path in seen_v:
            continue
        seen_v.add(path)
        json.dump(body, open(path, "w"), indent=1)
        fails = (r.get('replay') or {}).get('fails')
        out_lines.append("VIOLATION property=%s replay=%s   # %s::%s %s (%d violating claim(s) in this case)" % (
            cid, path, r['case'], r['label'], (fails or [''])[0], per_case[r['case']]))
    inconcl = [r for r in recs if r['verdict'] in ('inconclusive',)]
    unrepro = [r for r in recs if r['verdict'] == 'unreproduced']
    herr = [r for r in recs if r['verdict'] == 'harness-error']
    for r in inconcl[:40]:
        out_lines.append("INCONCLUSIVE %s::%s  %s" % (r['case'], r['label'], r.get('why')))
    if len(inconcl) > 40:
        out_lines.append("INCONCLUSIVE ... %d more" % (len(inconcl) - 40))
    for r in unrepro[:20]:
        out_lines.append("UNREPRODUCED-COUNTEREXAMPLE %s::%s model=%s replay=%s" % (
            r['case'], r['label'], json.dumps(r.get('model'))[:300], json.dumps(r.get('replay'))[:300]))
    for r in herr[:20]:
        out_lines.append("HARNESS-ERROR %s::%s %s" % (r['case'], r['label'], r.get('why')))
    wall = time.time() - t0
    if os.environ.get("VERIF_DUMP"):
        json.dump(recs, open(os.environ["VERIF_DUMP"], "w"), indent=0, default=str)
    write_evidence(cid, tier, seed, mod, cases, results, recs, counts, violations, known_hits, wall)
    solved = [r for r in recs if r.get('solver')]
    print("\n".join(out_lines))
    print("SUMMARY %s tier=%s cases=%d queries=%d unsat=%d violations=%d known=%d inconclusive=%d unreproduced=%d "
          "harness_errors=%d wall=%.1fs" % (cid, tier, len(cases), len(solved), counts.get('unsat', 0), len(violations),
                                            sum(len(v) for v in known_hits.values()), len(inconcl), len(unrepro),
                                            len(herr), wall))
    if violations:
        return EXIT_VIOLATION
    if unrepro or herr:
        return EXIT_HARNESS
    return EXIT_OK


def write_evidence(cid, tier, seed, mod, cases, results, recs, counts, violations, known_hits, wall):
    solved = [r for r in recs if r.get('solver') and r.get('solver') != 'constant-folded']
    distinct = len(set((r['case'], r['label'], tuple(r.get('path', []))) for r in solved
                       if r['verdict'] in ('unsat', 'violation') and r.get('twin', 'sat') != 'unsat'))
    funcs = sorted(set(f for res in results for f in res['funcs']))
    stubs = sorted(set(s for res in results for s in res['stubs']))
    samples = []
    for r in recs:
        if r.get('solver') and len(samples) < 12:
            s = {k: r[k] for k in ('case', 'label', 'kind', 'path', 'verdict', 'solver', 'seconds', 'nvars', 'size',
                                   'twin', 'cvc5') if k in r}
            samples.append(s)
    for r in recs:
        if r['verdict'] in ('violation', 'inconclusive', 'unreproduced') and len(samples) < 24:
            s = {k: r[k] for k in ('case', 'label', 'verdict', 'why', 'model') if k in r}
            samples.append(s)
    cov = dict(
        explanation=getattr(mod, 'EXPLANATION', ''),
        evaluations=len(solved),
        distinct_nontrivial=distinct,
        rule="one SMT query per (case, path, claim); a query counts as distinct and non-trivial when its "
             "(case, claim label, path) triple is new, its negated claim did not constant-fold away before reaching "
             "the solver, the solver returned a definite verdict and the path's reachability twin is sat",
        samples=samples,
        functions_encoded=funcs,
        bounds=getattr(mod, 'BOUNDS', {}).get(tier, getattr(mod, 'BOUNDS', {})),
        stubs_used=stubs,
        cases=len(cases),
        paths_explored=sum(res['paths'] for res in results),
        path_outcomes={k: sum(res['outcomes'].get(k, 0) for res in results) for k in
                       set(k for res in results for k in res['outcomes'])},
        paths_cut=sum(res['stats'].get('paths_cut', 0) for res in results) + counts.get('cut', 0),
        feasibility_queries=sum(res['stats'].get('feasibility_queries', 0) for res in results),
        queries_unsat=counts.get('unsat', 0),
        queries_violation=counts.get('violation', 0),
        queries_inconclusive=counts.get('inconclusive', 0),
        queries_unreproduced=counts.get('unreproduced', 0),
        queries_decided_up_to_relative_1e_9=sum(1 for r in recs if r.get('decided_up_to_relative')),
        solver_time_s=round(sum(r.get('seconds', 0) or 0 for r in recs), 2),
        cross_checked_with_cvc5=sum(1 for r in recs if 'cvc5' in r),
        cvc5_disagreements=sum(1 for r in recs if r.get('cvc5') == 'sat'),
        known_findings_hit={k: len(v) for k, v in known_hits.items()},
        outside_claim=getattr(mod, 'OUTSIDE', []),
        inconclusive_items=[dict(case=r['case'], label=r['label'], why=r.get('why')) for r in recs
                            if r['verdict'] == 'inconclusive'][:50],
        exhaustive=False,
    )
    ev = dict(property_id=cid, tier=tier, seed=seed, level="other", coverage=cov,
              assumptions=getattr(mod, 'ASSUMPTIONS', []) + ["library kernel model: " + s for s in stubs],
              wall_s=round(wall, 2), violations=len(violations))
    evdir = os.environ.get("VERIF_EVIDENCE_DIR") or os.path.join(ROOT, "evidence")     # (override: dev tooling only)
    os.makedirs(evdir, exist_ok=True)
    json.dump(ev, open(os.path.join(evdir, "%s.json" % cid), "w"), indent=1)


if __name__ == "__main__":
    sys.exit(main(sys.argv[1:]))
