"""Translator validation: the repository's own test inputs are pushed through (a) the unpatched float code and (b) the
symbolic layer instantiated with CONSTANTS (every Sym an exact rational, every library kernel replaced by its stub);
the two must agree to 1e-9 relative.  This exercises the numpy proxy, the SymArray handlers, the polynomial carrier and every
definitional stub on exactly the calls the real code makes.   usage: python -m symx.selftest     exit 0 ok / 3 mismatch"""
import os
import sys
import time
import warnings

ROOT = os.path.dirname(os.path.dirname(os.path.abspath(__file__)))
sys.path.insert(0, ROOT)


_ENV = [None]


def numeric_env():
    """numeric values for the auxiliary symbols of the current context (twiddles, square roots, pi)"""
    import math
    from symx import poly as P
    from symx.number import ctx
    c = ctx()
    env = {}
    for i, nm in enumerate(P.var_names()):
        if nm.startswith("tw"):
            M = int(nm[2:].split("_")[0])
            kind = nm.split("_")[1]
            cv, sv = math.cos(2 * math.pi / M), math.sin(2 * math.pi / M)
            if kind == 'c':
                env[i] = cv
            elif kind == 's':
                env[i] = sv
            else:
                env[i] = {3: sv, 6: sv, 12: cv, 8: cv}[M]
        elif nm == "PI":
            env[i] = math.pi
    from fractions import Fraction
    env = {k: Fraction(v) for k, v in env.items()}
    for vi in sorted(c.sqrt_defs):
        d = c.sqrt_defs[vi]
        if isinstance(d, tuple):
            env[vi] = Fraction(abs(float(d[1].eval(env))))
        else:
            env[vi] = Fraction(math.sqrt(max(float(d.eval(env)), 0.0)))
    return env


def numeric_feasible(conds):
    """branch decisions of the constant-instantiated run are taken by evaluating the condition"""
    env = numeric_env()
    try:
        return 'sat' if all(bool(c.eval(env)) if not c.is_const() else c.const_value() for c in conds) else 'unsat'
    except Exception:
        return 'unknown'


def to_float(v):
    import numpy as np
    from symx.number import Sym
    if isinstance(v, Sym):
        if v.is_const():
            c = v.const_value()
            return complex(c) if isinstance(c, complex) else float(c)
        if _ENV[0] is None:
            _ENV[0] = numeric_env()
        r = v.eval(_ENV[0])
        return complex(float(r.real), float(r.imag)) if isinstance(r, complex) else float(r)
    if isinstance(v, (list, tuple)):
        return [to_float(e) for e in v]
    if isinstance(v, np.ndarray):
        if v.dtype == object:
            out = np.empty(v.shape, dtype=complex)
            flat = out.reshape(-1)
            for i, e in enumerate(v.flat):
                flat[i] = to_float(e)
            return out
        return v
    return v


def close(a, b, tol=1e-9):
    import numpy as np
    a = np.asarray(to_float(a), dtype=complex)
    b = np.asarray(to_float(b), dtype=complex)
    if a.shape != b.shape:
        return False, "shape %r vs %r" % (a.shape, b.shape)
    if a.size == 0:
        return True, ""
    err = np.max(np.abs(a - b) / (1 + np.abs(b)))
    return bool(err <= tol), "max rel err %.3g" % err


def jobs(S, np):
    md = np.asarray(S.marple_data)
    x5 = np.array([1., 2., 3., 4., 5.])
    T = np.array([-2 + 0.5j, .7 - 1j])
    out = []
    out.append(("LEVINSON real (test_levinson_real)", lambda A: S.LEVINSON(A(np.array([5.0, -1.5450, -3.9547, 3.9331, 1.4681, -4.7500])))))
    out.append(("LEVINSON complex (test_levinson)", lambda A: S.LEVINSON(A(np.array([3 + 0j, -2 + 0.5j, .7 - 1j])))))
    out.append(("CORRELATION marple biased", lambda A: S.CORRELATION(A(md[:24]), maxlags=6, norm='biased')))
    out.append(("CORRELATION unequal lengths", lambda A: S.CORRELATION(A(x5[:3]), A(x5), maxlags=2, norm=None)))
    out.append(("xcorr coeff (test_xcorr)", lambda A: S.xcorr(A(x5), A(x5), maxlags=4, norm='coeff')[0]))
    out.append(("corrmtx modified", lambda A: S.corrmtx(A(md[:8]), 2, 'modified')))
    out.append(("HERMTOEP (test_hermtoep)", lambda A: S.toeplitz.HERMTOEP(3.0, A(T), A(np.array([1.0 + 3.0j, 2.0 - 1.0j, 0.5 + 0.8j])))))
    out.append(("TOEPLITZ (test_toeplitz)", lambda A: S.toeplitz.TOEPLITZ(3 + 0j, A(T), A(np.array([-0.2 - 0.4j, 0.3 - 0.6j])),
                                                                         A(np.array([1.0 + 3.0j, 2.0 - 1.0j, 0.5 + 0.8j])))))
    out.append(("aryule marple order 3", lambda A: S.aryule(A(md[:16]), 3)))
    out.append(("arburg marple order 3", lambda A: S.arburg(A(md[:12]), 3)))
    out.append(("_arburg2 order 2", lambda A: S.burg._arburg2(A(md[:10]), 2)))
    out.append(("arcovar order 2", lambda A: S.arcovar(A(md[:10]), 2)))
    out.append(("modcovar order 2", lambda A: S.modcovar(A(md[:10]), 2)))
    out.append(("arcovar_marple order 3", lambda A: S.arcovar_marple(A(md[:12]), 3)[:2]))
    out.append(("modcovar_marple order 2", lambda A: S.modcovar_marple(A(md[:10]), 2)[:2]))
    out.append(("minvar m=3 NFFT=8", lambda A: S.minvar(A(md[:12]), 3, NFFT=8)))
    out.append(("ma Q=1 M=3", lambda A: S.ma(A(md[:12]), 1, 3)))
    out.append(("arma_estimate 1,1,4", lambda A: S.arma_estimate(A(md[:14]), 1, 1, 4)))
    out.append(("arma2psd", lambda A: S.arma2psd(A=A(np.array([0.5 + 0.1j, -0.2j])), B=A(np.array([0.3 + 0j])), rho=2.0, T=4.0, NFFT=7)))
    out.append(("speriodogram real NFFT=8", lambda A: S.speriodogram(A(x5), NFFT=8, detrend=False, scale_by_freq=False, window='hamming')))
    out.append(("speriodogram complex 2-D", lambda A: S.speriodogram(A(np.array([md[:5], md[5:10]]).T), NFFT=6, detrend=False, scale_by_freq=True)))
    out.append(("CORRELOGRAMPSD xcorr", lambda A: S.CORRELOGRAMPSD(A(md[:8]), lag=3, NFFT=9, correlation_method='xcorr')))
    out.append(("Periodogram class", lambda A: S.Periodogram(A(md[:6]), NFFT=8, sampling=2.0, scale_by_freq=True).psd))
    out.append(("pburg class onesided", lambda A: S.pburg(A(x5 * np.array([1, -1, 2, 0.5, 3])), 2, NFFT=7).psd))
    out.append(("pyule sides setter", lambda A: _sides(S.pyule(A(md[:8]), 2, NFFT=8))))
    out.append(("pminvar class", lambda A: _call(S.pminvar(A(md[:10]), 3, NFFT=8))))
    out.append(("lpc", lambda A: S.lpc(A(np.array([1., 2., 3., 4., 5., 6., 7., 8.])), 3)))
    out.append(("rc2poly/poly2ac/rc2ac", lambda A: S.rc2ac(A(np.array([0.5, -0.3, 0.2])), 2.0)))
    out.append(("poly2rc", lambda A: S.poly2rc(A(np.array([1.0, 0.6, -0.2, 0.1])), 0.5)))
    out.append(("onesided_2_twosided (test_tools)", lambda A: S.tools.onesided_2_twosided(A(np.array([10., 2, 3, 4, 6])))))
    out.append(("pmtm unity", lambda A: S.pmtm(A(md[:8]), e=np.array([0.9, 0.8]), v=np.array([[.1, .2, .3, .4, .4, .3, .2, .1], [.3, .2, .1, 0, 0, -.1, -.2, -.3]]).T,
                                                NFFT=8, method='unity', show=False)[0]))
    return out


def _sides(p):
    _ = p.psd
    p.sides = 'centerdc'
    return p.psd


def _call(p):
    p()
    return p.psd


def main():
    warnings.simplefilter("ignore")
    import numpy as np
    from symx import loader
    from symx import poly as P
    from symx.number import Context, set_ctx
    from symx.array import SymArray
    S = loader.import_spectrum()
    js = jobs(S, np)
    ref = []
    for name, fn in js:
        ref.append(fn(lambda a: np.array(a)))
    loader.install()
    bad = 0
    t0 = time.time()
    for (name, fn), r in zip(js, ref):
        P.reset_vars()
        set_ctx(Context([], numeric_feasible))
        _ENV[0] = None
        try:
            got = fn(lambda a: SymArray.make(np.array(a), cplx=bool(np.iscomplexobj(a))))
            if isinstance(r, tuple):
                oks = [close(g, e) for g, e in zip(got, r) if e is not None and g is not None]
                ok = all(o for o, _ in oks)
                msg = "; ".join(m for _, m in oks)
            else:
                ok, msg = close(got, r)
        except BaseException as e:          # noqa
            ok, msg = False, "%s: %s" % (type(e).__name__, str(e)[:200])
        _ENV[0] = None
        set_ctx(None)
        print("%-4s %-40s %s" % ("ok" if ok else "FAIL", name, msg))
        bad += (not ok)
    loader.uninstall()
    print("selftest: %d jobs, %d mismatches, %.1fs" % (len(js), bad, time.time() - t0))
    return 3 if bad else 0


if __name__ == "__main__":
    sys.exit(main())
