"""Symbolic exact numbers (real / complex rational functions), symbolic booleans, run context."""
from fractions import Fraction
import math
import numbers

import numpy as _np

from . import poly as P
from .poly import Q, Poly


class PathAbort(BaseException):
    """raised to abandon the current path (infeasible / cut)."""


class SymError(Exception):
    """operation outside the modelled fragment (makes the case inconclusive, never a pass)."""


# ---------------------------------------------------------------------------
class Context(object):
    """State of one symbolic path."""

    def __init__(self, prefix=(), feasible=None, max_decisions=200):
        self.prefix = list(prefix)
        self.decisions = []          # list of (bool taken, SymBool cond)
        self.pending = []            # alternative prefixes discovered on this path
        self.axioms = []             # SymBool: constraints on inputs / fresh symbols (assumed)
        self.axiom_notes = []
        self.side = []               # (label, Poly) denominators introduced by the code
        self.feasible = feasible     # callable(list_of_SymBool) -> 'sat'|'unsat'|'unknown'
        self.max_decisions = max_decisions
        self.fresh = 0
        self.sqrt_defs = {}          # var index -> Q (square of the variable)
        self.uf_apps = {}            # (fname, key) -> (Sym result, Sym arg)
        self.events = []             # notes (casts complex->real etc.)
        self.cut = False
        self.forks = 0

    def fresh_name(self, stem):
        self.fresh += 1
        return "%s!%d" % (stem, self.fresh)

    def path_condition(self):
        out = []
        for taken, cond in self.decisions:
            out.append(cond if taken else cond.negate())
        return out

    def assume(self, cond, note=None):
        if isinstance(cond, SymBool):
            if cond.is_const():
                if not cond.const_value():
                    raise PathAbort("assumption is false")
                return
            self.axioms.append(cond)
            if note:
                self.axiom_notes.append(note)
        elif not cond:
            raise PathAbort("assumption is false")

    def decide(self, cond):
        """branch on a symbolic condition"""
        if _in_effect_free_if():
            # `if <test>: pass  else: <bare expression>` in the code under test (e.g. an exception object that is
            # built but never raised): both outcomes are observationally identical, so no fork and no path condition
            self.dead_branches = getattr(self, 'dead_branches', 0) + 1
            return True
        i = len(self.decisions)
        if i < len(self.prefix):
            taken = self.prefix[i]
            self.decisions.append((taken, cond))
            return taken
        if i >= self.max_decisions:
            self.cut = True
            raise PathAbort("decision cap")
        base = self.axioms + self.path_condition()
        can_t = can_f = 'unknown'
        if self.feasible is not None:
            can_t = self.feasible(base + [cond])
            if can_t == 'unsat':
                can_f = 'sat'
            else:
                can_f = self.feasible(base + [cond.negate()])
        if can_t == 'unsat' and can_f == 'unsat':
            raise PathAbort("path condition became infeasible")
        if can_t != 'unsat' and can_f != 'unsat':
            # both possible (or unknown): take True now, queue False
            self.pending.append([t for t, _ in self.decisions] + [False])
            self.forks += 1
            taken = True
        else:
            taken = (can_t != 'unsat')
        self.decisions.append((taken, cond))
        # keep prefix aligned so that re-execution is deterministic
        self.prefix.append(taken)
        return taken


_IF_CACHE = {}
from .paths import REPO_SRC as _REPO_SRC


def _effect_free_ifs(filename):
    """line ranges of the tests of `if` statements whose body and orelse cannot have any effect"""
    import ast
    hit = _IF_CACHE.get(filename)
    if hit is not None:
        return hit
    spans = []
    try:
        tree = ast.parse(open(filename).read())
    except Exception:
        tree = None

    def inert(stmts):
        for st in stmts:
            if isinstance(st, ast.Pass):
                continue
            if isinstance(st, ast.Expr):
                v = st.value
                if isinstance(v, ast.Constant):
                    continue
                if (isinstance(v, ast.Call) and isinstance(v.func, ast.Name)
                        and v.func.id in ('ValueError', 'TypeError', 'RuntimeError', 'Exception', 'AssertionError')
                        and all(isinstance(a, ast.Constant) for a in v.args) and not v.keywords):
                    continue
            return False
        return True
    if tree is not None:
        for node in ast.walk(tree):
            if isinstance(node, ast.If) and inert(node.body) and inert(node.orelse):
                spans.append((node.test.lineno, node.test.end_lineno))
    _IF_CACHE[filename] = spans
    return spans


def _in_effect_free_if():
    import sys
    f = sys._getframe(2)
    depth = 0
    while f is not None and depth < 12:
        fn = f.f_code.co_filename
        if fn.startswith(_REPO_SRC):
            ln = f.f_lineno
            for a, b in _effect_free_ifs(fn):
                if a <= ln <= b:
                    return True
            return False
        f = f.f_back
        depth += 1
    return False


_CTX = [None]


def ctx():
    c = _CTX[0]
    if c is None:
        raise RuntimeError("no symbolic context active")
    return c


def set_ctx(c):
    _CTX[0] = c


def active():
    return _CTX[0] is not None


# ---------------------------------------------------------------------------
class SymBool(object):
    """('cmp', op, Q)  meaning  Q op 0, op in < <= == != ; and/or/not; const."""
    __slots__ = ('k', 'a', 'b')

    def __init__(self, k, a=None, b=None):
        self.k = k
        self.a = a
        self.b = b

    @staticmethod
    def const(v):
        return SymBool('const', bool(v))

    @staticmethod
    def cmp(op, q):
        if q.is_const():
            v = q.const_value()
            return SymBool.const({'<': v < 0, '<=': v <= 0, '==': v == 0, '!=': v != 0}[op])
        return SymBool('cmp', op, q)

    def is_const(self):
        return self.k == 'const'

    def const_value(self):
        return self.a

    def negate(self):
        if self.k == 'const':
            return SymBool.const(not self.a)
        if self.k == 'cmp':
            op, q = self.a, self.b
            if op == '<':      # not (q<0)  <=> -q <= 0
                return SymBool('cmp', '<=', -q)
            if op == '<=':
                return SymBool('cmp', '<', -q)
            if op == '==':
                return SymBool('cmp', '!=', q)
            return SymBool('cmp', '==', q)
        if self.k == 'and':
            return SymBool.any([x.negate() for x in self.a])
        if self.k == 'or':
            return SymBool.all([x.negate() for x in self.a])
        raise AssertionError(self.k)

    @staticmethod
    def all(xs):
        out = []
        for x in xs:
            if not isinstance(x, SymBool):
                x = SymBool.const(x)
            if x.k == 'const':
                if not x.a:
                    return x
                continue
            if x.k == 'and':
                out.extend(x.a)
            else:
                out.append(x)
        if not out:
            return SymBool.const(True)
        if len(out) == 1:
            return out[0]
        return SymBool('and', out)

    @staticmethod
    def any(xs):
        out = []
        for x in xs:
            if not isinstance(x, SymBool):
                x = SymBool.const(x)
            if x.k == 'const':
                if x.a:
                    return x
                continue
            if x.k == 'or':
                out.extend(x.a)
            else:
                out.append(x)
        if not out:
            return SymBool.const(False)
        if len(out) == 1:
            return out[0]
        return SymBool('or', out)

    def __and__(self, o):
        return SymBool.all([self, o])

    __rand__ = __and__

    def __or__(self, o):
        return SymBool.any([self, o])

    __ror__ = __or__

    def __invert__(self):
        return self.negate()

    def __bool__(self):
        if self.k == 'const':
            return self.a
        return ctx().decide(self)

    def __eq__(self, o):
        # `(a == b) == True` style code
        if isinstance(o, bool):
            return self if o else self.negate()
        return NotImplemented

    def __ne__(self, o):
        if isinstance(o, bool):
            return self.negate() if o else self
        return NotImplemented

    __hash__ = None

    def smt(self):
        if self.k == 'const':
            return "true" if self.a else "false"
        if self.k == 'cmp':
            op, q = self.a, self.b
            if op in ('==', '!='):
                s = "(= %s 0.0)" % q.n.smt()
                return s if op == '==' else "(not %s)" % s
            return "(%s %s 0.0)" % (op, q.sign_poly().smt())
        if self.k == 'and':
            return "(and %s)" % " ".join(x.smt() for x in self.a)
        if self.k == 'or':
            return "(or %s)" % " ".join(x.smt() for x in self.a)
        raise AssertionError(self.k)

    def eval(self, env):
        if self.k == 'const':
            return self.a
        if self.k == 'cmp':
            v = self.b.eval(env)
            return {'<': v < 0, '<=': v <= 0, '==': v == 0, '!=': v != 0}[self.a]
        if self.k == 'and':
            return all(x.eval(env) for x in self.a)
        return any(x.eval(env) for x in self.a)

    def __repr__(self):
        if self.k == 'cmp':
            return "(%r %s 0)" % (self.b, self.a)
        return "SymBool(%s %r)" % (self.k, self.a)


# ---------------------------------------------------------------------------
QZERO = Q.const(0)
QONE = Q.const(1)


def _q(c):
    return Q.const(c)


def _lift(o):
    """python / numpy scalar -> Sym, or None"""
    if isinstance(o, Sym):
        return o
    if isinstance(o, bool) or isinstance(o, _np.bool_):
        return Sym(_q(int(o)))
    if isinstance(o, numbers.Integral):
        return Sym(_q(int(o)))
    if isinstance(o, Fraction):
        return Sym(_q(o))
    if isinstance(o, (float, _np.floating)):
        f = float(o)
        if f != f or f in (float('inf'), float('-inf')):
            raise SymError("non-finite float constant %r meets a symbolic value" % f)
        return Sym(_q(Fraction(f)))
    if isinstance(o, (complex, _np.complexfloating)):
        c = complex(o)
        for f in (c.real, c.imag):
            if f != f or f in (float('inf'), float('-inf')):
                raise SymError("non-finite complex constant meets a symbolic value")
        return Sym(_q(Fraction(c.real)), _q(Fraction(c.imag)), True)
    return None


class Sym(object):
    """exact complex number re + i*im, re and im rational functions (poly.Q)."""
    __slots__ = ('re', 'im', 'cplx')


    def __init__(self, re, im=None, cplx=False):
        self.re = re
        self.im = im if im is not None else QZERO
        self.cplx = bool(cplx) or not self.im.is_zero()

    # -- construction helpers
    @staticmethod
    def const(c):
        return _lift(c)

    @staticmethod
    def real_var(name, **meta):
        pin = getattr(_CTX[0], 'pin', None)
        if pin is not None and name in pin:
            return Sym(_q(pin[name]))          # exact re-run of a concrete probe: the input is this rational
        return Sym(Q.var(name, **meta))

    @staticmethod
    def complex_var(name, **meta):
        pin = getattr(_CTX[0], 'pin', None)
        if pin is not None and (name + "_re") in pin and (name + "_im") in pin:
            return Sym(_q(pin[name + "_re"]), _q(pin[name + "_im"]), True)
        return Sym(Q.var(name + "_re", **meta), Q.var(name + "_im", **meta), True)

    def is_const(self):
        return self.re.is_const() and self.im.is_const()

    def const_value(self):
        if self.im.is_zero():
            return self.re.const_value()
        return complex(self.re.const_value(), self.im.const_value())

    def is_real_valued(self):
        return self.im.is_zero()

    # -- numpy-like attributes
    @property
    def real(self):
        return Sym(self.re)

    @property
    def imag(self):
        return Sym(self.im)

    def conjugate(self):
        if not self.cplx:
            return self
        return Sym(self.re, -self.im, True)

    conj = conjugate

    @property
    def dtype(self):
        return _np.dtype(complex) if self.cplx else _np.dtype(float)

    @property
    def shape(self):
        return ()

    @property
    def ndim(self):
        return 0

    @property
    def size(self):
        return 1

    def copy(self):
        return self

    def transpose(self, *a):
        return self

    @property
    def T(self):
        return self

    def item(self):
        return self

    def astype(self, dt, **kw):
        if _np.dtype(dt).kind == 'c':
            return Sym(self.re, self.im, True)
        if _np.dtype(dt).kind == 'f':
            if not self.im.is_zero():
                ctx().events.append("complex->real cast discards imaginary part")
            return Sym(self.re)
        return self

    # -- arithmetic
    def _bin(self, o):
        if isinstance(o, Sym):
            return o
        if isinstance(o, _np.ndarray):
            return None
        v = _lift(o)
        return v

    def __add__(self, o):
        o = self._bin(o)
        if o is None:
            return NotImplemented
        return Sym(self.re + o.re, self.im + o.im, self.cplx or o.cplx)

    __radd__ = __add__

    def __neg__(self):
        return Sym(-self.re, -self.im, self.cplx)

    def __pos__(self):
        return self

    def __sub__(self, o):
        o = self._bin(o)
        if o is None:
            return NotImplemented
        return Sym(self.re - o.re, self.im - o.im, self.cplx or o.cplx)

    def __rsub__(self, o):
        o = self._bin(o)
        if o is None:
            return NotImplemented
        return Sym(o.re - self.re, o.im - self.im, self.cplx or o.cplx)

    def __mul__(self, o):
        o = self._bin(o)
        if o is None:
            return NotImplemented
        c = self.cplx or o.cplx
        if self.im.is_zero():
            if o.im.is_zero():
                return Sym(self.re * o.re, None, c)
            return Sym(self.re * o.re, self.re * o.im, c)
        if o.im.is_zero():
            return Sym(self.re * o.re, self.im * o.re, c)
        return Sym(self.re * o.re - self.im * o.im, self.re * o.im + self.im * o.re, c)

    __rmul__ = __mul__

    def _inv(self):
        c = ctx()
        if self.im.is_zero():
            if self.re.is_zero():
                raise SymZeroDivision()
            if not self.re.is_const():
                c.side.append(("div", self.re.n))
            return Sym(self.re.inv(), None, self.cplx)
        m = self.re * self.re + self.im * self.im
        if not m.is_const():
            c.side.append(("div", m.n))
        mi = m.inv()
        return Sym(self.re * mi, -(self.im * mi), True)

    def __truediv__(self, o):
        o = self._bin(o)
        if o is None:
            return NotImplemented
        if o.is_const() and o.im.is_zero():
            v = o.re.const_value()
            if v == 0:
                raise SymZeroDivision()
            k = _q(1 / v)
            return Sym(self.re * k, self.im * k, self.cplx or o.cplx)
        return self * o._inv()

    def __rtruediv__(self, o):
        o = self._bin(o)
        if o is None:
            return NotImplemented
        return o * self._inv()

    def __floordiv__(self, o):
        raise SymError("floor division of a symbolic value")

    def __pow__(self, e):
        if isinstance(e, Sym):
            if not e.is_const():
                raise SymError("symbolic exponent")
            e = e.const_value()
        if isinstance(e, (float, _np.floating)) and float(e).is_integer():
            e = int(e)
        if isinstance(e, (numbers.Integral, _np.integer)):
            e = int(e)
            if e == 2:
                sq = self._sqrt_def()
                if sq is not None:
                    return Sym(sq)
            if e < 0:
                return (self ** (-e))._inv()
            if self.im.is_zero():
                return Sym(self.re ** e, None, self.cplx)
            r = Sym(QONE)
            b = self
            while e:
                if e & 1:
                    r = r * b
                e >>= 1
                if e:
                    b = b * b
            return r
        if (isinstance(e, (float, _np.floating, Fraction)) and not self.is_const() and getattr(ctx(), 'log_algebra', False)):
            from . import stubs_math
            return stubs_math.pow_frac(self, e)
        if isinstance(e, (float, _np.floating, Fraction)) and Fraction(e) == Fraction(1, 2):
            return self.sqrt()
        if self.is_const():
            v = self.const_value() ** e
            return _lift(v)
        if getattr(ctx(), 'log_algebra', False) and isinstance(e, (float, _np.floating, Fraction)):
            from . import stubs_math
            return stubs_math.pow_frac(self, e)
        raise SymError("non-integer power %r of a symbolic value" % (e,))

    def __rpow__(self, b):
        if self.is_const():
            return _lift(b ** self.const_value())
        raise SymError("symbolic exponent")

    def _sqrt_def(self):
        """if self is exactly a fresh variable defined as a square root, return its square"""
        if self.im.is_zero() and not self.re.d and self.re.s == 1 and len(self.re.n.t) == 1:
            (m, c), = self.re.n.t.items()
            if c == 1 and len(m) == 1 and m[0][1] == 1:
                d = ctx().sqrt_defs.get(-m[0][0])
                if isinstance(d, tuple):        # ('abs', x): |x|^2 = x^2, computed only when asked for
                    return d[1] * d[1]
                return d
        return None

    def abs2(self):
        if self.im.is_zero():
            return Sym(self.re * self.re)
        return Sym(self.re * self.re + self.im * self.im)

    def __abs__(self):
        if self.is_const():
            v = self.const_value()
            if isinstance(v, Fraction):
                return Sym(_q(abs(v)))
            # complex constant: exact modulus (a rational when re^2+im^2 is a perfect square, else an exact root symbol)
            sq = self.abs2()
            r = sq.sqrt() if _is_perfect_square(sq.re.const_value()) else None
            if r is not None:
                return r
            return _fresh_root(sq.re, "abs")
        if self.im.is_zero():
            return _fresh_abs_real(self.re)
        sq = self.abs2().re
        return _fresh_root(sq, "abs")

    def sqrt(self):
        if self.is_const() and self.im.is_zero():
            v = self.re.const_value()
            if v >= 0:
                n, d = v.numerator, v.denominator
                rn, rd = math.isqrt(n), math.isqrt(d)
                if rn * rn == n and rd * rd == d:
                    return Sym(_q(Fraction(rn, rd)))
        if not self.im.is_zero():
            raise SymError("sqrt of a complex symbolic value")
        c = ctx()
        c.assume(SymBool.cmp('<=', -self.re), "sqrt argument >= 0")
        return _fresh_root(self.re, "sqrt")

    # -- comparisons
    def _cmp(self, o, op):
        o = self._bin(o)
        if o is None:
            return NotImplemented
        if not (self.im.is_zero() and o.im.is_zero()):
            # numpy orders complex numbers lexicographically (real part first)
            dre = self.re - o.re
            dim = self.im - o.im
            return SymBool.any([SymBool.cmp('<', dre), SymBool.all([SymBool.cmp('==', dre), SymBool.cmp(op, dim)])])
        return SymBool.cmp(op, self.re - o.re)

    def __lt__(self, o):
        return self._cmp(o, '<')

    def __le__(self, o):
        return self._cmp(o, '<=')

    def __gt__(self, o):
        o2 = self._bin(o)
        if o2 is None:
            return NotImplemented
        return o2._cmp(self, '<')

    def __ge__(self, o):
        o2 = self._bin(o)
        if o2 is None:
            return NotImplemented
        return o2._cmp(self, '<=')

    def __eq__(self, o):
        if o is None or isinstance(o, str):
            return False
        o = self._bin(o)
        if o is None:
            return NotImplemented
        return SymBool.all([SymBool.cmp('==', self.re - o.re), SymBool.cmp('==', self.im - o.im)])

    def __ne__(self, o):
        if o is None or isinstance(o, str):
            return True
        o = self._bin(o)
        if o is None:
            return NotImplemented
        return SymBool.any([SymBool.cmp('!=', self.re - o.re), SymBool.cmp('!=', self.im - o.im)])

    __hash__ = None

    def __bool__(self):
        return bool(self != 0)

    def __float__(self):
        if self.is_const() and self.im.is_zero():
            return float(self.re.const_value())
        raise SymError("float() of a symbolic value")

    def __complex__(self):
        if self.is_const():
            return complex(self.const_value())
        raise SymError("complex() of a symbolic value")

    def __int__(self):
        if self.is_const() and self.im.is_zero():
            return int(self.re.const_value())
        raise SymError("int() of a symbolic value")

    def __index__(self):
        raise TypeError("symbolic value used as an index")

    # -- transcendental ufunc hooks (numpy calls these methods on object arrays)
    def _uf(self, name):
        from . import stubs_math
        return stubs_math.apply(name, self)

    def exp(self):
        return self._uf('exp')

    def log(self):
        return self._uf('log')

    def log10(self):
        return self._uf('log10')

    def cos(self):
        return self._uf('cos')

    def sin(self):
        return self._uf('sin')

    def tanh(self):
        return self._uf('tanh')

    def arctanh(self):
        return self._uf('arctanh')

    def arcsin(self):
        return self._uf('arcsin')

    def arccos(self):
        return self._uf('arccos')

    def cosh(self):
        return self._uf('cosh')

    def eval(self, env):
        r = self.re.eval(env)
        if self.im.is_zero():
            return complex(r, 0) if self.cplx and isinstance(r, float) else r
        return complex(r, self.im.eval(env))

    def __repr__(self):
        if self.im.is_zero():
            return "Sym(%r%s)" % (self.re, ", cplx" if self.cplx else "")
        return "Sym(%r + i*%r)" % (self.re, self.im)


def _is_perfect_square(v):
    v = Fraction(v)
    if v < 0:
        return False
    n, d = v.numerator, v.denominator
    return math.isqrt(n) ** 2 == n and math.isqrt(d) ** 2 == d


class SymZeroDivision(ZeroDivisionError):
    pass


def _fresh_abs_real(x):
    """fresh s with s >= 0 and (s == x or s == -x): |x| of a real value without squaring it"""
    c = ctx()
    for vi, d in c.sqrt_defs.items():
        if isinstance(d, tuple) and d[1].same(x):
            return Sym(Q(P.get_var(P.var_names()[vi])))
    name = c.fresh_name("abs")
    v = Q.var(name, kind='root')
    vi = P._VAR_INDEX[name]
    c.sqrt_defs[vi] = ('abs', x)
    c.axioms.append(SymBool.cmp('<=', -v))
    c.axioms.append(SymBool.any([SymBool.cmp('==', v - x), SymBool.cmp('==', v + x)]))
    return Sym(v)


def _fresh_root(sq, stem):
    """fresh s >= 0 with s*s == sq (sq a Q)."""
    c = ctx()
    key = ('root', id(sq))
    for vi, q in c.sqrt_defs.items():
        if not isinstance(q, tuple) and q.same(sq):
            return Sym(Q(P.get_var(P.var_names()[vi])))
    name = c.fresh_name(stem)
    v = Q.var(name, kind='root')
    vi = P._VAR_INDEX[name]
    c.sqrt_defs[vi] = sq
    c.axioms.append(SymBool.cmp('<=', -v))
    c.axioms.append(SymBool.cmp('==', v * v - sq))
    return Sym(v)


def as_sym(x):
    v = _lift(x)
    if v is None:
        raise SymError("cannot lift %r" % (type(x),))
    return v
