"""SymArray: object-dtype ndarray subclass carrying Sym elements, plus numpy API handlers."""
import sys
import numpy as np

from .number import Sym, SymBool, SymError, as_sym, ctx, _lift

from .paths import REPO_PKG as REPO_SRC

_HANDLERS = {}
SHADOW = {}      # shadowed builtins (float/complex/int replacements) -> dtype kind


def dtype_kind(dt):
    try:
        k = SHADOW.get(dt)
    except TypeError:
        k = None
    if k:
        return k
    return np.dtype(dt).kind


def implements(*funcs):
    def deco(h):
        for f in funcs:
            _HANDLERS[f] = h
        return h
    return deco


def elem_is_complex(e):
    if isinstance(e, Sym):
        return e.cplx
    return isinstance(e, (complex, np.complexfloating))


def is_complex_array(a):
    if isinstance(a, Sym):
        return a.cplx
    if isinstance(a, np.ndarray) and a.dtype != object:
        return np.iscomplexobj(a)
    if isinstance(a, np.ndarray):
        return any(elem_is_complex(e) for e in a.flat)
    if isinstance(a, (list, tuple)):
        return any(is_complex_array(e) for e in a)
    return elem_is_complex(a)


def is_symbolic(x):
    """does x contain a Sym (possibly nested in lists / object arrays)"""
    if isinstance(x, Sym):
        return True
    if isinstance(x, SymArray):
        return True
    if isinstance(x, np.ndarray):
        return x.dtype == object and any(isinstance(e, Sym) for e in x.flat)
    if isinstance(x, (list, tuple)):
        return any(is_symbolic(e) for e in x)
    return False


class SymBuffer(object):
    """what `arr.ctypes.data_as(...)` yields for a symbolic array: the stub of the C routine writes through `.array`"""
    def __init__(self, arr):
        self.array = arr


class _CtypesHandle(object):
    def __init__(self, arr):
        self._arr = arr

    def data_as(self, tp):
        return SymBuffer(self._arr)


class SymArray(np.ndarray):
    """always created owning its data (so that .resize works)"""

    def __new__(cls, shape):
        return np.ndarray.__new__(cls, shape, dtype=object)

    # -- construction
    @staticmethod
    def make(data, cplx=None):
        """from nested lists / arrays / scalars; every element lifted to Sym"""
        src = np.asarray(data, dtype=object) if not isinstance(data, np.ndarray) else data
        out = SymArray(src.shape)
        force_c = bool(cplx)
        if src.shape == ():
            out[()] = _lift_elem(src[()], force_c)
            return out
        of = out.reshape(-1) if out.size else out
        for i, e in enumerate(src.flat):
            of[i] = _lift_elem(e, force_c)
        return out

    @staticmethod
    def filled(shape, value, cplx=False):
        out = SymArray(shape)
        v = _lift_elem(value, cplx)
        flat = out.reshape(-1)
        for i in range(flat.size):
            flat[i] = v
        return out

    def is_complex(self):
        return any(elem_is_complex(e) for e in self.flat)

    # -- what the repo code sees
    @property
    def dtype(self):
        real = np.ndarray.dtype.__get__(self)
        try:
            fn = sys._getframe(1).f_code.co_filename
        except ValueError:
            return real
        if fn.startswith(REPO_SRC):
            if getattr(self, '_ikind', False):
                return np.dtype(np.int64)
            return np.dtype(complex) if self.is_complex() else np.dtype(float)
        return real

    @property
    def ctypes(self):
        # a symbolic buffer cannot be handed to C: a stub standing for the C routine receives a handle to the array itself
        return _CtypesHandle(self)

    @property
    def real(self):
        if not self.is_complex():
            return self             # numpy: the real part of a real array is the array itself
        return _map(self, lambda e: e.real if isinstance(e, Sym) else np.real(e))

    @real.setter
    def real(self, v):
        raise SymError("assignment to .real")

    @property
    def imag(self):
        return _map(self, lambda e: e.imag if isinstance(e, Sym) else np.imag(e))

    @imag.setter
    def imag(self, v):
        raise SymError("assignment to .imag")

    def conj(self):
        if not self.is_complex():
            return self             # numpy: ndarray.conj() of a real array returns the same object (aliasing matters)
        return _map(self, lambda e: e.conjugate())

    conjugate = conj

    def astype(self, dt, *a, **kw):
        k = dtype_kind(dt)
        if kw.get('copy', True) is False and ((k == 'c') == self.is_complex()) and k in 'cf':
            return self             # numpy: astype(copy=False) with a matching dtype does not copy
        if k == 'c':
            return _map(self, lambda e: _lift_elem(e, True))
        if k == 'f':
            return _map(self, lambda e: as_sym(e).astype(float))
        if k == 'O':
            return self.copy()
        raise SymError("astype(%s) on symbolic array" % (dt,))

    def copy(self, order='C'):
        out = SymArray(self.shape)
        out[...] = self
        if getattr(self, '_ikind', False):
            out._ikind = True
        return out

    def mean(self, axis=None, **kw):
        return _mean(self, axis)

    def tolist(self):
        return np.ndarray.tolist(self)

    def __array_finalize__(self, obj):
        # views (slices, reshapes) of an integer-dtype symbolic array stay integer; computed results do not
        if obj is not None and getattr(obj, '_ikind', False) and self.base is not None:
            self._ikind = True

    def __array_function__(self, func, types, args, kwargs):
        h = _HANDLERS.get(func)
        if h is not None:
            return h(*args, **kwargs)
        res = super().__array_function__(func, types, args, kwargs)
        return _wrap(res)

    def __array_ufunc__(self, ufunc, method, *inputs, **kwargs):
        ins = [np.asarray(x, dtype=object).view(np.ndarray) if isinstance(x, np.ndarray) else x for x in inputs]
        if 'out' in kwargs:
            outs = kwargs['out']
            kwargs['out'] = tuple(o.view(np.ndarray) if isinstance(o, SymArray) else o for o in outs)
        h = _UFUNC_HANDLERS.get(ufunc)
        if h is not None and method == '__call__':
            res = h(*ins, **kwargs)
        else:
            res = getattr(ufunc, method)(*ins, **kwargs)
        if 'out' in kwargs and kwargs['out']:
            # in-place (e.g. a += b, res *= k): numpy wrote into the base buffer
            o = inputs[0] if method == '__call__' else None
            outs = kwargs['out']
            return outs[0].view(SymArray) if isinstance(outs[0], np.ndarray) else outs[0]
        return _wrap(res)

    def __reduce__(self):
        raise SymError("pickling a SymArray")


_UFUNC_HANDLERS = {}
SHADOW = {}      # shadowed builtins (float/complex/int replacements) -> dtype kind


def dtype_kind(dt):
    try:
        k = SHADOW.get(dt)
    except TypeError:
        k = None
    if k:
        return k
    return np.dtype(dt).kind


def _lift_elem(e, force_c=False):
    v = _lift(e)
    if v is None:
        if e is None:
            v = _lift(0)
        else:
            raise SymError("cannot hold %r in a symbolic array" % (type(e),))
    if force_c and not v.cplx:
        v = Sym(v.re, v.im, True)
    return v


def _map(a, f):
    out = SymArray(a.shape)
    if a.shape == ():
        out[()] = f(a[()])
        return out
    of = out.reshape(-1)
    for i, e in enumerate(np.ndarray.view(a, np.ndarray).flat):
        of[i] = f(e)
    return out


def _wrap(res):
    if isinstance(res, SymArray):
        return res
    if isinstance(res, np.ndarray) and res.dtype == object:
        if res.shape == ():
            return res[()]
        out = SymArray(res.shape)
        out[...] = res
        return out
    if isinstance(res, tuple):
        return tuple(_wrap(r) for r in res)
    if isinstance(res, list):
        return [_wrap(r) for r in res]
    return res


def to_symarray(x, cplx=None):
    if isinstance(x, SymArray) and not cplx:
        return x
    return SymArray.make(x, cplx)


# ---------------------------------------------------------------------------
# handlers for numpy API functions

@implements(np.isrealobj)
def _isrealobj(x):
    return not is_complex_array(x)


@implements(np.iscomplexobj)
def _iscomplexobj(x):
    return is_complex_array(x)


@implements(np.real)
def _real(x):
    if isinstance(x, SymArray):
        return x.real
    return to_symarray(x).real if not isinstance(x, Sym) else x.real


@implements(np.imag)
def _imag(x):
    return to_symarray(x).imag if not isinstance(x, Sym) else x.imag


def _mean(a, axis=None, **kw):
    a = to_symarray(a)
    if axis is None:
        n = a.size
        return np.ndarray.sum(a.view(np.ndarray)) / n
    n = a.shape[axis]
    return _wrap(np.sum(a.view(np.ndarray), axis=axis)) / n


implements(np.mean)(_mean)


@implements(np.copy)
def _copy(a, **kw):
    return to_symarray(a).copy()


@implements(np.array_equal)
def _array_equal(a, b):
    raise SymError("array_equal on symbolic arrays")


@implements(np.where)
def _where(cond, *args):
    raise SymError("numpy.where on symbolic arrays")


@implements(np.poly)
def _poly(roots):
    """monic polynomial with the given roots (numpy.poly on a 1-D sequence): repeated multiplication by (z - r)"""
    r = to_symarray(roots)
    if r.ndim != 1:
        raise SymError("numpy.poly of a %d-D symbolic array" % r.ndim)
    coef = [as_sym(1)]
    for root in r:
        root = as_sym(root)
        nxt = [coef[0]]
        for i in range(1, len(coef)):
            nxt.append(coef[i] - root * coef[i - 1])
        nxt.append(-root * coef[-1])
        coef = nxt
    return SymArray.make(coef)


@implements(np.sinc)
def _sinc(x):
    from . import stubs_math
    return _map(to_symarray(x), lambda e: stubs_math.apply('sinc', as_sym(e)))


@implements(np.fliplr)
def _fliplr(m):
    return m[:, ::-1]


@implements(np.flipud)
def _flipud(m):
    return m[::-1, ...]
