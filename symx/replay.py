"""Replay a solver model against the UNPATCHED float code in a clean interpreter."""
import json
import os
import sys
import traceback
import warnings

ROOT = os.path.dirname(os.path.dirname(os.path.abspath(__file__)))
sys.path.insert(0, ROOT)


def run_concrete(case, model):
    """run a case function on floats taken from `model` against the unpatched code (caller guarantees that)"""
    warnings.simplefilter("ignore")
    import numpy as np
    np.seterr(all='ignore')
    from symx import engine
    from symx.number import PathAbort, set_ctx
    set_ctx(None)
    h = engine.Harness('replay', model or {})
    out = dict(reproduced=False)
    try:
        case.fn(h, **case.params)
    except PathAbort as e:
        out['aborted'] = str(e)
    except Exception as e:
        tb = traceback.extract_tb(sys.exc_info()[2])
        where = "%s:%d" % (os.path.basename(tb[-1].filename), tb[-1].lineno) if tb else "?"
        h.fails.append(("unexpected-exception:%s" % type(e).__name__, "%s at %s" % (str(e)[:200], where)))
    out['fails'] = [[l, d[:300]] for l, d in h.fails][:40]
    out['checked'] = len(h.checked)
    out['inputs'] = h.inputs
    out['reproduced'] = bool(h.fails)
    return out


def run_job(job):
    from symx import loader
    from symx.run import list_cases
    loader.import_spectrum()
    cases = [c for c in list_cases(job['check'], job.get('tier', 'quick'), job.get('seed', 0)) if c.name == job['case']]
    if not cases:
        cases = [c for c in list_cases(job['check'], 'thorough', job.get('seed', 0)) if c.name == job['case']]
    if not cases:
        return dict(error="case not found: %s" % job['case'], reproduced=False)
    return run_concrete(cases[0], job.get('model'))


def run_forked(case, model, timeout=120):
    """fast path used by the runner: fork, drop the symbolic patches in the child, run on floats"""
    import multiprocessing as mp
    import signal
    ctxm = mp.get_context("fork")
    parent, child = ctxm.Pipe(duplex=False)

    def body(conn):
        try:
            from symx import loader
            loader.uninstall()
            conn.send(run_concrete(case, model))
        except BaseException as e:      # noqa
            try:
                conn.send(dict(error="%s: %s" % (type(e).__name__, traceback.format_exc()[-600:]), reproduced=False))
            except Exception:
                pass
        finally:
            conn.close()
            os._exit(0)
    p = ctxm.Process(target=body, args=(child,))
    p.start()
    child.close()
    res = None
    if parent.poll(timeout):
        try:
            res = parent.recv()
        except EOFError:
            res = None
    if p.is_alive():
        try:
            os.kill(p.pid, signal.SIGKILL)
        except OSError:
            pass
    p.join()
    parent.close()
    return res or dict(error="replay timed out / crashed", reproduced=False)


def run_exact_forked(case, inputs, label, timeout=180):
    """exact-arithmetic re-run of a float probe in a forked child (the parent's symbolic state is left alone)"""
    import multiprocessing as mp
    import signal
    ctxm = mp.get_context("fork")
    parent, child = ctxm.Pipe(duplex=False)

    def body(conn):
        try:
            from symx import loader, engine
            loader.install()
            conn.send(engine.run_exact(case.fn, case.params, inputs, label))
        except BaseException:      # noqa
            try:
                conn.send('unknown')
            except Exception:
                pass
        finally:
            conn.close()
            os._exit(0)
    p = ctxm.Process(target=body, args=(child,))
    p.start()
    child.close()
    res = 'unknown'
    if parent.poll(timeout):
        try:
            res = parent.recv()
        except EOFError:
            res = 'unknown'
    if p.is_alive():
        try:
            os.kill(p.pid, signal.SIGKILL)
        except OSError:
            pass
    p.join()
    parent.close()
    return res


def cli(cid, path):
    job = json.load(open(path))
    out = run_job(job)
    print(json.dumps(out, indent=1))
    if out.get('reproduced'):
        print("REPRODUCED property=%s case=%s" % (job['check'], job['case']))
        return 1
    print("NOT-REPRODUCED")
    return 0


if __name__ == "__main__":
    job = json.loads(sys.stdin.read())
    try:
        res = run_job(job)
    except BaseException as e:   # noqa
        res = dict(error="%s: %s" % (type(e).__name__, traceback.format_exc()[-800:]), reproduced=False)
    print(json.dumps(res))
