"""Replay a solver model against the UNPATCHED float code in a clean interpreter."""
import json
import os
import sys
import traceback
import warnings

ROOT = os.path.dirname(os.path.dirname(os.path.abspath(__file__)))
sys.path.insert(0, ROOT)


def run_job(job):
    warnings.simplefilter("ignore")
    import numpy as np
    np.seterr(all='ignore')
    from symx import loader, engine
    from symx.number import PathAbort
    from symx.run import list_cases
    loader.import_spectrum()
    cases = [c for c in list_cases(job['check'], job.get('tier', 'quick'), job.get('seed', 0)) if c.name == job['case']]
    if not cases:
        return dict(error="case not found: %s" % job['case'], reproduced=False)
    case = cases[0]
    h = engine.Harness('replay', job.get('model') or {})
    out = dict(reproduced=False)
    try:
        case.fn(h, **case.params)
    except PathAbort as e:
        out['aborted'] = str(e)
    except Exception as e:
        tb = traceback.extract_tb(sys.exc_info()[2])
        where = "%s:%d" % (os.path.basename(tb[-1].filename), tb[-1].lineno) if tb else "?"
        h.fails.append(("unexpected-exception:%s" % type(e).__name__, "%s at %s" % (str(e)[:200], where)))
    out['fails'] = [[l, d[:300]] for l, d in h.fails][:20]
    out['checked'] = len(h.checked)
    out['inputs'] = h.inputs
    out['reproduced'] = bool(h.fails)
    return out


def cli(cid, path):
    job = json.load(open(path))
    out = run_job(job)
    print(json.dumps(out, indent=1))
    if out.get('reproduced'):
        print("REPRODUCED property=%s case=%s" % (job['check'], job['case']))
        return 1
    print("NOT-REPRODUCED")
    return 0


if __name__ == "__main__":
    job = json.loads(sys.stdin.read())
    try:
        res = run_job(job)
    except BaseException as e:   # noqa
        res = dict(error="%s: %s" % (type(e).__name__, traceback.format_exc()[-800:]), reproduced=False)
    print(json.dumps(res))
