"""Sparse multivariate polynomials over Q and rational functions with factored denominators.

This is the *carrier* of symbolic values while the real spectrum code runs.  It does
no deciding: every claim is turned into an SMT query over these polynomials and the
solver's verdict is what counts.  Cancellation is only ever done by *exact* polynomial
division (remainder identically zero), so the value represented never changes.

Monomial: tuple of (-var_index, exp), var_index ascending; python tuple order on this
encoding is the lex monomial order x0 > x1 > ... .
"""
from fractions import Fraction
import itertools
import math

_VARS = []          # index -> name
_VAR_INDEX = {}     # name -> index
_VAR_META = {}      # name -> dict (kind etc.)


_QUAD = {}          # var index -> Fraction c : the variable is an algebraic number with v*v == c (reduced on sight)


def reset_vars():
    _VARS.clear()
    _VAR_INDEX.clear()
    _VAR_META.clear()
    _ATOMS.clear()
    _QUAD.clear()


def declare_quadratic(name, c):
    """v*v == c is applied as a rewrite rule in every product (value preserving: it is an axiom of v).
    c is a rational, or a polynomial in OTHER variables (a tower: e.g. sin^2 -> 1 - cos^2, b^2 -> 2 + a)"""
    if isinstance(c, Poly):
        if c.is_const():
            c = c.const_value()
        else:
            assert all(-nv != _VAR_INDEX[name] for m in c.t for nv, e in m)
            _QUAD[_VAR_INDEX[name]] = c
            return
    _QUAD[_VAR_INDEX[name]] = Fraction(c)


def _reduce_quad(t):
    out = {}
    for m, c in t.items():
        nm = None
        pf = None           # polynomial-valued squares met in this monomial
        for pos, (nv, e) in enumerate(m):
            q = _QUAD.get(-nv)
            if q is not None and e >= 2:
                if nm is None:
                    nm = list(m)
                if isinstance(q, Poly):
                    pf = (q ** (e // 2)) if pf is None else pf * (q ** (e // 2))
                else:
                    c = c * q ** (e // 2)
                nm[pos] = (nv, e % 2)
        if nm is not None:
            m = tuple(x for x in nm if x[1])
        if pf is not None:
            # monomial * polynomial: the product is reduced again by Poly.__mul__
            for m2, c2 in (Poly({m: c}) * pf).t.items():
                v = out.get(m2)
                v = c2 if v is None else v + c2
                if v == 0:
                    out.pop(m2, None)
                else:
                    out[m2] = v
            continue
        v = out.get(m)
        if v is None:
            out[m] = c
        else:
            v = v + c
            if v == 0:
                del out[m]
            else:
                out[m] = v
    return out


def var_names():
    return list(_VARS)


def var_meta(name):
    return _VAR_META.get(name, {})


def new_var(name, **meta):
    if name in _VAR_INDEX:
        raise ValueError("duplicate variable " + name)
    _VAR_INDEX[name] = len(_VARS)
    _VARS.append(name)
    _VAR_META[name] = meta
    return Poly({((-_VAR_INDEX[name], 1),): 1})


def get_var(name):
    i = _VAR_INDEX[name]
    return Poly({((-i, 1),): 1})


def _mono_mul(a, b):
    if not a:
        return b
    if not b:
        return a
    out = []
    i = j = 0
    la, lb = len(a), len(b)
    while i < la and j < lb:
        va, ea = a[i]
        vb, eb = b[j]
        if va == vb:
            out.append((va, ea + eb))
            i += 1
            j += 1
        elif va > vb:       # -index larger  => smaller index => comes first
            out.append(a[i])
            i += 1
        else:
            out.append(b[j])
            j += 1
    if i < la:
        out.extend(a[i:])
    if j < lb:
        out.extend(b[j:])
    return tuple(out)


def _mono_div(a, b):
    """a / b or None"""
    if not b:
        return a
    out = []
    i = 0
    la = len(a)
    for vb, eb in b:
        while i < la and a[i][0] > vb:
            out.append(a[i])
            i += 1
        if i >= la or a[i][0] != vb:
            return None
        ea = a[i][1]
        if ea < eb:
            return None
        if ea > eb:
            out.append((vb, ea - eb))
        i += 1
    out.extend(a[i:])
    return tuple(out)


class Poly(object):
    __slots__ = ('t', '_h', '_lt')

    def __init__(self, t):
        self.t = t
        self._h = None
        self._lt = None

    # -- construction
    @staticmethod
    def const(c):
        c = _norm(Fraction(c))
        return Poly({(): c}) if c != 0 else Poly({})

    def is_zero(self):
        return not self.t

    def is_const(self):
        return not self.t or (len(self.t) == 1 and () in self.t)

    def const_value(self):
        return self.t.get((), Fraction(0))

    def nterms(self):
        return len(self.t)

    def degree(self):
        return max((sum(e for _, e in m) for m in self.t), default=0)

    def vars(self):
        s = set()
        for m in self.t:
            for v, _ in m:
                s.add(-v)
        return s

    def __hash__(self):
        if self._h is None:
            self._h = hash(frozenset(self.t.items()))
        return self._h

    def __eq__(self, o):
        return isinstance(o, Poly) and self.t == o.t

    def __ne__(self, o):
        return not self.__eq__(o)

    def __neg__(self):
        return Poly({m: -c for m, c in self.t.items()})

    def __add__(self, o):
        if not o.t:
            return self
        if not self.t:
            return o
        t = dict(self.t)
        for m, c in o.t.items():
            v = t.get(m)
            if v is None:
                t[m] = c
            else:
                v = v + c
                if v == 0:
                    del t[m]
                else:
                    t[m] = v
        return Poly(t)

    def __sub__(self, o):
        if not o.t:
            return self
        t = dict(self.t)
        for m, c in o.t.items():
            v = t.get(m)
            if v is None:
                t[m] = -c
            else:
                v = v - c
                if v == 0:
                    del t[m]
                else:
                    t[m] = v
        return Poly(t)

    def scale(self, c):
        if c == 0:
            return Poly({})
        if c == 1:
            return self
        return Poly({m: k * c for m, k in self.t.items()})

    def __mul__(self, o):
        a, b = self.t, o.t
        if not a or not b:
            return Poly({})
        if len(a) == 1 and () in a:
            return o.scale(a[()])
        if len(b) == 1 and () in b:
            return self.scale(b[()])
        if len(a) < len(b):
            a, b = b, a
        t = {}
        for mb, cb in b.items():
            for ma, ca in a.items():
                m = _mono_mul(ma, mb)
                c = ca * cb
                v = t.get(m)
                if v is None:
                    t[m] = c
                else:
                    v = v + c
                    if v == 0:
                        del t[m]
                    else:
                        t[m] = v
        if _QUAD:
            for m in t:
                if any(e >= 2 and -nv in _QUAD for nv, e in m):
                    t = _reduce_quad(t)
                    break
        return Poly(t)

    def __pow__(self, n):
        assert isinstance(n, int) and n >= 0
        r = Poly.const(1)
        b = self
        while n:
            if n & 1:
                r = r * b
            n >>= 1
            if n:
                b = b * b
        return r

    def lead(self):
        if self._lt is None:
            m = max(self.t)
            self._lt = (m, self.t[m])
        return self._lt

    def monic(self):
        """(monic poly, leading coeff)"""
        m, c = self.lead()
        if c == 1:
            return self, c
        return self.scale(_div(1, c)), c

    def divexact(self, d):
        """self / d if d divides self exactly, else None.  When both have integer coefficients and d is primitive
        the quotient has integer coefficients (Gauss), which is used to fail fast."""
        if d.is_const():
            return self.scale(_div(1, d.const_value()))
        if not self.t:
            return self
        dm, dc = d.lead()
        ints = type(dc) is int
        if len(d.t) == 1:
            t = {}
            for m, c in self.t.items():
                q = _mono_div(m, dm)
                if q is None:
                    return None
                t[q] = _div(c, dc)
            return Poly(t)
        if len(self.t) < 2:
            return None
        rem = dict(self.t)
        q = {}
        dt = [(m, c) for m, c in d.t.items() if m != dm]
        while rem:
            m = max(rem)
            c = rem[m]
            qm = _mono_div(m, dm)
            if qm is None:
                return None
            if ints and type(c) is int:
                if c % dc:
                    if d_is_primitive_int(d) and all(type(v) is int for v in self.t.values()):
                        return None
                    qc = Fraction(c, dc)
                else:
                    qc = c // dc
            else:
                qc = _div(c, dc)
            q[qm] = qc
            del rem[m]
            for m2, c2 in dt:
                mm = _mono_mul(qm, m2)
                v = rem.get(mm)
                nv = -qc * c2 if v is None else v - qc * c2
                if nv == 0:
                    if v is not None:
                        del rem[mm]
                else:
                    rem[mm] = nv
        return Poly(q)

    def eval(self, env):
        """env: var index -> number (Fraction/float/complex)."""
        tot = 0
        for m, c in self.t.items():
            v = c
            for nv, e in m:
                v = v * env[-nv] ** e
            tot = tot + v
        return tot

    def smt(self):
        if not self.t:
            return "0.0"
        terms = []
        for m, c in sorted(self.t.items(), reverse=True):
            fs = []
            if c != 1 or not m:
                fs.append(_smt_q(c))
            for nv, e in m:
                fs.extend([_VARS[-nv]] * e)
            terms.append(fs[0] if len(fs) == 1 else "(* " + " ".join(fs) + ")")
        return terms[0] if len(terms) == 1 else "(+ " + " ".join(terms) + ")"

    def __repr__(self):
        if not self.t:
            return "0"
        out = []
        for m, c in sorted(self.t.items(), reverse=True)[:12]:
            s = str(c)
            for nv, e in m:
                s += "*" + _VARS[-nv] + ("^%d" % e if e > 1 else "")
            out.append(s)
        if len(self.t) > 12:
            out.append("...(%d terms)" % len(self.t))
        return " + ".join(out)


def _norm(c):
    """Fraction with denominator 1 -> int"""
    if type(c) is Fraction and c.denominator == 1:
        return c.numerator
    return c


def _div(a, b):
    return _norm(Fraction(a) / Fraction(b))


_PRIM = {}


def d_is_primitive_int(d):
    k = id(d)
    v = _PRIM.get(k)
    if v is None or v[0] is not d:
        ok = all(type(c) is int for c in d.t.values())
        if ok:
            g = 0
            for c in d.t.values():
                g = math.gcd(g, c)
                if g == 1:
                    break
            ok = (g == 1)
        _PRIM[k] = (d, ok)
        return ok
    return v[1]


def content_split(p):
    """p = c * q with q integer-coefficient, primitive, positive leading coefficient; returns (q, c)"""
    if not p.t:
        return p, Fraction(0)
    L = 1
    allint = True
    for c in p.t.values():
        if type(c) is not int:
            allint = False
            d = c.denominator
            if d != 1:
                L = L * d // math.gcd(L, d)
    G = 0
    if allint:
        for c in p.t.values():
            G = math.gcd(G, c)
            if G == 1:
                break
        lead = p.lead()[1]
        if G == 1 and lead > 0:
            return p, 1
        sgn = -1 if lead < 0 else 1
        return Poly({m: (c // G) * sgn for m, c in p.t.items()}), G * sgn
    ints = {m: int(c * L) for m, c in p.t.items()}
    for c in ints.values():
        G = math.gcd(G, c)
        if G == 1:
            break
    q = Poly(ints)
    lead = q.lead()[1]
    sgn = -1 if lead < 0 else 1
    q = Poly({m: (c // G) * sgn for m, c in ints.items()})
    return q, _norm(Fraction(G * sgn, L))


def _smt_q(c):
    c = Fraction(c)
    n, d = c.numerator, c.denominator
    s = "%d.0" % abs(n) if d == 1 else "(/ %d.0 %d.0)" % (abs(n), d)
    return "(- %s)" % s if n < 0 else s


ZERO = Poly({})
ONE = Poly({(): 1})

# ---------------------------------------------------------------------------
# rational functions with factored denominators:  value = s * n / prod(atom^exp)
#   s     rational scalar
#   n     integer-coefficient primitive polynomial with positive leading coefficient (or ZERO)
#   atoms integer-coefficient primitive polynomials with positive leading coefficient
_ATOMS = {}   # atom Poly -> itself (interning)


def _split_atoms(p):
    """Factor the (non-zero) poly p over the known atoms: returns (scalar, {atom: exp}).
    The cofactor left after trial division becomes a new atom."""
    cur, scal = content_split(p)
    fac = {}
    if not cur.is_const():
        for a in list(_ATOMS):
            if cur.is_const():
                break
            if a.degree() > cur.degree():
                continue
            while True:
                q = cur.divexact(a)
                if q is None:
                    break
                fac[a] = fac.get(a, 0) + 1
                cur = q
                if cur.is_const():
                    break
    if cur.is_const():
        scal = scal * cur.const_value()
    else:
        cur, c2 = content_split(cur)
        scal = scal * c2
        cur = _ATOMS.setdefault(cur, cur)
        fac[cur] = fac.get(cur, 0) + 1
    return scal, fac


def _cancel(num, den):
    """trial-divide num by each atom of den (dict atom->exp); returns (num, den)."""
    if num.is_zero():
        return num, {}
    if not den:
        return num, den
    nd = None
    for a, e in den.items():
        if num.is_const():
            break
        k = 0
        while k < e:
            q = num.divexact(a)
            if q is None:
                break
            num = q
            k += 1
        if k:
            if nd is None:
                nd = dict(den)
            if k == e:
                del nd[a]
            else:
                nd[a] = e - k
    return num, (den if nd is None else nd)


def _den_poly(den):
    p = ONE
    for a, e in den.items():
        p = p * (a ** e)
    return p


def _frac(s):
    if type(s) is int:
        return s, 1
    return s.numerator, s.denominator


class Q(object):
    """s * n / prod(atom^exp); value-preserving normalisation only."""
    __slots__ = ('n', 'd', 's')

    def __init__(self, n, d=None, s=1):
        """n must already be normalised (use Q.make otherwise)"""
        self.n = n
        self.d = d if d else {}
        self.s = s

    @staticmethod
    def make(n, d=None, s=1):
        if n.is_zero():
            return Q(ZERO, None, 0)
        q, c = content_split(n)
        return Q(q, d, _norm(s * c))

    @staticmethod
    def const(c):
        c = _norm(Fraction(c))
        if c == 0:
            return Q(ZERO, None, 0)
        return Q(ONE, None, c)

    @staticmethod
    def var(name, **meta):
        return Q(new_var(name, **meta), None, 1)

    @staticmethod
    def of_poly(p):
        return Q.make(p)

    def is_const(self):
        return not self.d and self.n.is_const()

    def const_value(self):
        if self.n.is_zero():
            return Fraction(0)
        return Fraction(self.s * self.n.const_value())

    def is_zero(self):
        return self.n.is_zero()

    def num_poly(self):
        """numerator including the scalar's numerator sign/magnitude (for display / equality with zero use .n)"""
        return self.n.scale(self.s)

    def __neg__(self):
        if self.n.is_zero():
            return self
        return Q(self.n, self.d, -self.s)

    def __add__(self, o):
        if o.n.is_zero():
            return self
        if self.n.is_zero():
            return o
        a1, b1 = _frac(self.s)
        a2, b2 = _frac(o.s)
        g = math.gcd(b1, b2)
        k1 = a1 * (b2 // g)
        k2 = a2 * (b1 // g)
        sc = Fraction(1, b1 // g * b2)
        if not self.d and not o.d:
            return Q.make(self.n.scale(k1) + o.n.scale(k2), None, sc)
        if self.d == o.d:
            n, d = _cancel(self.n.scale(k1) + o.n.scale(k2), self.d)
            return Q.make(n, d, sc)
        l = dict(self.d)
        m1 = ONE
        m2 = ONE
        for a, e in o.d.items():
            e1 = l.get(a, 0)
            if e > e1:
                l[a] = e
                m1 = m1 * (a ** (e - e1))
        for a, e in l.items():
            e2 = o.d.get(a, 0)
            if e > e2:
                m2 = m2 * (a ** (e - e2))
        n = (self.n * m1).scale(k1) + (o.n * m2).scale(k2)
        n, d = _cancel(n, l)
        return Q.make(n, d, sc)

    def __sub__(self, o):
        return self + (-o)

    def __mul__(self, o):
        if self.n.is_zero() or o.n.is_zero():
            return Q(ZERO, None, 0)
        s = _norm(self.s * o.s)
        if not self.d and not o.d:
            if _QUAD:
                return Q.make(self.n * o.n, None, s)
            return Q(self.n * o.n, None, s)
        n1, d2 = _cancel(self.n, o.d)
        n2, d1 = _cancel(o.n, self.d)
        d = dict(d1)
        for a, e in d2.items():
            d[a] = d.get(a, 0) + e
        if _QUAD:
            return Q.make(n1 * n2, d, s)
        return Q(n1 * n2, d, s)

    def inv(self):
        if self.n.is_zero():
            raise ZeroDivisionError("symbolic division by the zero polynomial")
        if self.n.is_const():
            return Q.make(_den_poly(self.d), None, _div(1, self.s * self.n.const_value()))
        scal, fac = _split_atoms(self.n)
        return Q.make(_den_poly(self.d), fac, _div(1, self.s * scal))

    def __truediv__(self, o):
        return self * o.inv()

    def __pow__(self, k):
        assert isinstance(k, int)
        if k < 0:
            return self.inv() ** (-k)
        if self.n.is_zero():
            return self if k else Q.const(1)
        return Q.make(self.n ** k, {a: e * k for a, e in self.d.items()}, _norm(Fraction(self.s) ** k))

    def den_poly(self):
        return _den_poly(self.d)

    def sign_poly(self):
        """polynomial with the same sign as self wherever all atoms are non-zero."""
        p = self.n if self.s > 0 else -self.n
        for a, e in self.d.items():
            if e % 2:
                p = p * a
        return p

    def eval(self, env):
        v = self.n.eval(env) * self.s
        for a, e in self.d.items():
            v = v / a.eval(env) ** e
        return v

    def key(self):
        return (self.s, frozenset(self.n.t.items()), frozenset((hash(a), e) for a, e in self.d.items()))

    def same(self, o):
        return self.s == o.s and self.n == o.n and self.d == o.d

    def __repr__(self):
        num = self.n.scale(self.s) if self.n.t else self.n
        if not self.d:
            return "Q(%r)" % (num,)
        return "Q(%r / %s)" % (num, " * ".join("(%r)^%d" % (a, e) for a, e in self.d.items()))


def q_eq_parts(x, y):
    """fraction-free equality x == y: returns (n1, m1, n2, m2) with n1*m1 == n2*m2 <=> x == y
    (given all atoms non-zero); the rational scalars are folded into n1, n2 as integers."""
    l = dict(x.d)
    m1 = ONE
    m2 = ONE
    for a, e in y.d.items():
        e1 = l.get(a, 0)
        if e > e1:
            l[a] = e
            m1 = m1 * (a ** (e - e1))
    for a, e in l.items():
        e2 = y.d.get(a, 0)
        if e > e2:
            m2 = m2 * (a ** (e - e2))
    a1, b1 = _frac(x.s)
    a2, b2 = _frac(y.s)
    return x.n.scale(a1 * b2), m1, y.n.scale(a2 * b1), m2, b1 * b2
