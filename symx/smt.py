"""Query construction (SMT-LIB2 text) and solver driver (fresh solver per query, hard deadline via fork)."""
import multiprocessing as mp
import os
import re
import signal
import time
from fractions import Fraction

from . import poly as P
from .number import SymBool

_SYM_RE = re.compile(r"[A-Za-z_][A-Za-z0-9_!.]*")


def sb_vars(b, acc=None):
    acc = set() if acc is None else acc
    if b.k == 'cmp':
        q = b.b
        acc |= q.n.vars()
        for a in q.d:
            acc |= a.vars()
    elif b.k in ('and', 'or'):
        for x in b.a:
            sb_vars(x, acc)
    return acc


def sb_atoms(b, acc=None):
    acc = set() if acc is None else acc
    if b.k == 'cmp':
        for a in b.b.d:
            acc.add(a)
    elif b.k in ('and', 'or'):
        for x in b.a:
            sb_atoms(x, acc)
    return acc


def build(axioms, pcs, goal_text=None, goal_vars=(), goal_atoms=(), atoms_nonzero=True, extra_text=()):
    """SMT-LIB text: relevant axioms + (optionally) every divisor atom non-zero + path condition + goal_text.
    goal_text is the NEGATED claim (None for a reachability twin).  Returns (text, variable names)."""
    core = list(pcs)
    vars_ = set(goal_vars)
    for b in core:
        sb_vars(b, vars_)
    atoms = set(goal_atoms)
    for b in core + list(axioms):
        sb_atoms(b, atoms)
    pool = [(sb_vars(b), b.smt()) for b in axioms]
    if atoms_nonzero:
        atoms |= set(P._ATOMS)
        pool += [(a.vars(), "(not (= %s 0.0))" % a.smt()) for a in atoms]
    chosen = []
    changed = True
    remaining = pool
    while changed:
        changed = False
        rest = []
        for vs, txt in remaining:
            if not vs or (vs & vars_):
                chosen.append(txt)
                if not vs <= vars_:
                    vars_ |= vs
                    changed = True
            else:
                rest.append((vs, txt))
        remaining = rest
    names = P.var_names()
    used = sorted(vars_)
    lines = ["(set-option :produce-models true)"]
    for i in used:
        nm = names[i]
        lines.append("(declare-const %s Real)" % nm)
        if P.var_meta(nm).get('integer'):
            lines.append("(declare-const %s__int Int)" % nm)
            lines.append("(assert (= %s (to_real %s__int)))" % (nm, nm))
    for t in extra_text:
        lines.append(t)
    for t in chosen:
        lines.append("(assert %s)" % t)
    for b in core:
        lines.append("(assert %s)" % b.smt())
    if goal_text is not None:
        lines.append("(assert %s)" % goal_text)
    return "\n".join(lines) + "\n", [names[i] for i in used]


def build_query(axioms, pcs, goal, extra_text=(), all_atoms=True):
    if goal is None:
        return build(axioms, pcs, None, atoms_nonzero=all_atoms, extra_text=extra_text)
    return build(axioms, pcs, goal.smt(), sb_vars(goal), sb_atoms(goal), atoms_nonzero=all_atoms, extra_text=extra_text)


# ---------------------------------------------------------------------------
def _z3_solve(text, timeout_s, want_model):
    import z3
    t0 = time.time()
    s = z3.Solver()
    s.set("timeout", int(timeout_s * 1000))
    try:
        s.from_string(text)
    except z3.Z3Exception as e:
        return ("error", str(e)[:300], time.time() - t0, "z3")
    r = str(s.check())
    how = "z3-default"
    if r == "unknown":
        left = timeout_s - (time.time() - t0)
        if left > 1:
            try:
                g = z3.Goal()
                g.add(s.assertions())
                t = z3.TryFor(z3.Tactic("qfnra-nlsat"), int(left * 1000))
                s2 = t.solver()
                s2.add(s.assertions())
                r = str(s2.check())
                how = "z3-nlsat"
                if r != "unknown":
                    s = s2
            except z3.Z3Exception:
                pass
    model = None
    if r == "sat" and want_model:
        model = {}
        m = s.model()
        for d in m.decls():
            v = m[d]
            try:
                if z3.is_rational_value(v):
                    model[d.name()] = str(Fraction(v.numerator_as_long(), v.denominator_as_long()))
                elif z3.is_algebraic_value(v):
                    a = v.approx(30)
                    model[d.name()] = str(Fraction(a.numerator_as_long(), a.denominator_as_long()))
                else:
                    model[d.name()] = str(v)
            except Exception:
                model[d.name()] = str(v)
    return (r, model, time.time() - t0, how)


def _cvc5_solve(text, timeout_s, want_model):
    import cvc5
    t0 = time.time()
    slv = cvc5.Solver()
    slv.setOption("tlimit-per", str(int(timeout_s * 1000)))
    slv.setOption("produce-models", "true")
    slv.setLogic("QF_NRA")
    ip = cvc5.InputParser(slv)
    ip.setStringInput(cvc5.InputLanguage.SMT_LIB_2_6, text + "\n(check-sat)\n", "q")
    sm = ip.getSymbolManager()
    res = None
    while True:
        cmd = ip.nextCommand()
        if cmd.isNull():
            break
        out = cmd.invoke(slv, sm)
        if cmd.getCommandName() == "check-sat":
            res = out.strip()
    return (res or "unknown", None, time.time() - t0, "cvc5")


class _Server(object):
    """one long-lived solver process per (worker, solver kind); a fresh Solver object is created for every query.
    A query that overruns its hard deadline gets the process killed and restarted."""

    def __init__(self, kind):
        self.kind = kind
        self.proc = None
        self.conn = None

    def _start(self):
        ctx = mp.get_context("fork")
        parent, child = ctx.Pipe(duplex=True)
        fn = _z3_solve if self.kind == "z3" else _cvc5_solve

        def loop(conn):
            try:
                signal.signal(signal.SIGINT, signal.SIG_IGN)
                n = 0
                while True:
                    try:
                        job = conn.recv()
                    except EOFError:
                        break
                    if job is None:
                        break
                    text, timeout_s, want_model = job
                    try:
                        res = fn(text, timeout_s, want_model)
                    except BaseException as e:    # noqa
                        res = ("error", repr(e)[:300], 0.0, "?")
                    conn.send(res)
                    n += 1
            finally:
                os._exit(0)
        p = ctx.Process(target=loop, args=(child,))
        p.daemon = False
        p.start()
        child.close()
        self.proc, self.conn = p, parent

    def stop(self):
        if self.proc is not None:
            try:
                if self.proc.is_alive():
                    os.kill(self.proc.pid, signal.SIGKILL)
            except OSError:
                pass
            try:
                self.proc.join(1)
            except Exception:
                pass
            try:
                self.conn.close()
            except Exception:
                pass
        self.proc = self.conn = None

    def solve(self, text, timeout_s, want_model):
        if self.proc is None or not self.proc.is_alive() or self.pid != os.getpid():
            self.proc = None
            self._start()
            self.pid = os.getpid()
        t0 = time.time()
        try:
            self.conn.send((text, timeout_s, want_model))
            if self.conn.poll(timeout_s + 10):
                return self.conn.recv()
        except (EOFError, OSError, BrokenPipeError):
            pass
        self.stop()
        return ("unknown", "hard timeout or solver crash", time.time() - t0, self.kind)

    pid = None


_SERVERS = {}


def solve(text, timeout_s=60.0, want_model=True, solver="z3"):
    """returns (verdict, model|None|msg, seconds, how).  verdict in sat/unsat/unknown/error.
    Every query gets a fresh solver object inside a separate solver process (hard deadline enforced by kill)."""
    key = (solver, os.getpid())
    srv = _SERVERS.get(key)
    if srv is None:
        srv = _SERVERS[key] = _Server(solver)
    return srv.solve(text, timeout_s, want_model)


def shutdown():
    for k, srv in list(_SERVERS.items()):
        if k[1] == os.getpid():
            srv.stop()
            del _SERVERS[k]
