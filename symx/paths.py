"""location of the repository under verification: /repo (its current working tree), always, for the registered
checks.  VERIF_REPO_ROOT exists only so that development tooling (tools/seedeval.py) can point the same machinery at a
scratch worktree without touching /repo."""
import os

REPO_ROOT = os.environ.get("VERIF_REPO_ROOT", "/repo").rstrip("/")
REPO_SRC = REPO_ROOT + "/src"
REPO_PKG = REPO_SRC + "/spectrum"
