"""Models of the library kernels the repo only calls (each one is part of every claim that uses it)."""
from fractions import Fraction
import math
import numpy as np

from .number import Sym, SymBool, SymError, ctx, as_sym, _q, QZERO, QONE
from .poly import Q
from . import poly as P
from .array import SymArray, to_symarray, implements, is_symbolic, _wrap, is_complex_array

USED = set()          # names of stubs entered during this process


def used(name):
    USED.add(name)


# ---------------------------------------------------------------------------
# exact twiddle factors  w_M = exp(-2*pi*i/M) = c - i*s
class Twiddles(object):
    def __init__(self, M):
        self.M = M
        self.cache = {}
        c = ctx()
        if M in (1, 2, 4):
            self.g = None
            return
        cv = math.cos(2 * math.pi / M)
        sv = math.sin(2 * math.pi / M)
        if M in (3, 6, 12, 8):
            # one algebraic number h > 0 with h^2 rational
            h = Sym(Q.var("tw%d_h" % M, kind='twiddle'))
            if M == 3:
                cc, ss, sq = _q(Fraction(-1, 2)), h.re, Fraction(3, 4)
            elif M == 6:
                cc, ss, sq = _q(Fraction(1, 2)), h.re, Fraction(3, 4)
            elif M == 12:
                cc, ss, sq = h.re, _q(Fraction(1, 2)), Fraction(3, 4)
            else:
                cc, ss, sq = h.re, h.re, Fraction(1, 2)
            c.axioms.append(SymBool.cmp('<', -h.re))
            c.axioms.append(SymBool('cmp', '==', Q.make(P.get_var("tw%d_h" % M) * P.get_var("tw%d_h" % M) - P.Poly.const(sq))))
            P.declare_quadratic("tw%d_h" % M, sq)
            self.g = Sym(cc, -ss, True)
            return
        if M in (16, 32):
            # tower of square roots: a = sqrt 2, b = sqrt(2 + a), c = sqrt(2 + b); cos(pi/8) = b/2, sin(pi/8) = (ab - b)/2,
            # cos(pi/16) = c/2, sin(pi/16) = (ab - b) c (2 - b)(2 + a)/4.  The squares are rewritten on sight.
            a = Sym(Q.var("tw%d_a" % M, kind='twiddle'))
            b = Sym(Q.var("tw%d_b" % M, kind='twiddle'))
            pa, pb = P.get_var("tw%d_a" % M), P.get_var("tw%d_b" % M)
            for v in (a, b):
                c.axioms.append(SymBool.cmp('<', -v.re))
            c.axioms.append(SymBool('cmp', '==', Q.make(pa * pa - P.Poly.const(2))))
            c.axioms.append(SymBool('cmp', '==', Q.make(pb * pb - pa - P.Poly.const(2))))
            P.declare_quadratic("tw%d_a" % M, 2)
            P.declare_quadratic("tw%d_b" % M, pa + P.Poly.const(2))
            if M == 16:
                cc = b.re * _q(Fraction(1, 2))
                ss = (a.re * b.re - b.re) * _q(Fraction(1, 2))
            else:
                cv_ = Sym(Q.var("tw%d_c" % M, kind='twiddle'))
                pc = P.get_var("tw%d_c" % M)
                c.axioms.append(SymBool.cmp('<', -cv_.re))
                c.axioms.append(SymBool('cmp', '==', Q.make(pc * pc - pb - P.Poly.const(2))))
                P.declare_quadratic("tw%d_c" % M, pb + P.Poly.const(2))
                cc = cv_.re * _q(Fraction(1, 2))
                ss = (a.re * b.re - b.re) * cv_.re * (_q(2) - b.re) * (_q(2) + a.re) * _q(Fraction(1, 4))
            self.g = Sym(cc, -ss, True)
            return
        cs = Sym(Q.var("tw%d_c" % M, kind='twiddle'))
        sn = Sym(Q.var("tw%d_s" % M, kind='twiddle'))
        self.g = Sym(cs.re, -sn.re, True)
        eps = Fraction(1, 10 ** 6)
        for v, val in ((cs, cv), (sn, sv)):
            lo = Fraction(val).limit_denominator(10 ** 9) - eps
            hi = lo + 2 * eps
            c.axioms.append(SymBool.cmp('<', _q(lo) - v.re))
            c.axioms.append(SymBool.cmp('<', v.re - _q(hi)))
        c.axioms.append(SymBool.cmp('==', cs.re * cs.re + sn.re * sn.re - _q(1)))
        # g^M = 1, written through the half powers to keep the degree at M/2
        if M % 2 == 0:
            gh = self._rawpow(M // 2)
            c.axioms.append(SymBool.cmp('==', gh.re + _q(1)))
            c.axioms.append(SymBool.cmp('==', gh.im))
        else:
            a = self._rawpow((M + 1) // 2)
            b = self._rawpow((M - 1) // 2).conjugate()
            c.axioms.append(SymBool.cmp('==', a.re - b.re))
            c.axioms.append(SymBool.cmp('==', a.im - b.im))

    def _rawpow(self, j):
        r = Sym(QONE, None, True)
        for _ in range(j):
            r = r * self.g
        return r

    def pow(self, j):
        M = self.M
        j %= M
        if j in self.cache:
            return self.cache[j]
        if j == 0:
            r = Sym(QONE, None, True)
        elif M % 2 == 0 and j == M // 2:
            r = Sym(_q(-1), None, True)
        elif M % 4 == 0 and j == M // 4:
            r = Sym(QZERO, _q(-1), True)
        elif M % 4 == 0 and j == 3 * M // 4:
            r = Sym(QZERO, _q(1), True)
        elif 2 * j > M:
            r = self.pow(M - j).conjugate()
        elif M % 4 == 0 and 4 * j > M:
            # w^j = -i * w^(j - M/4)
            r = Sym(QZERO, _q(-1), True) * self.pow(j - M // 4)
        else:
            r = self.pow(j - 1) * self.g
        self.cache[j] = r
        return r


def twiddles(n):
    """twiddle generator for size n, expressed through the context's base grid when n divides it"""
    c = ctx()
    tw = getattr(c, '_tw', None)
    if tw is None:
        tw = c._tw = {}
    base = getattr(c, 'twiddle_base', None)
    M = base if (base and base % n == 0) else n
    if M not in tw:
        tw[M] = Twiddles(M)
    t = tw[M]
    step = M // n
    return lambda j: t.pow((j % n) * step)


def dft_vec(x, n, sign=-1):
    """X[k] = sum_m x[m] w_n^(k m) (sign=-1) or the conjugate kernel (sign=+1); x zero padded / truncated to n."""
    w = twiddles(n)
    m = min(len(x), n)
    out = SymArray(n)
    for k in range(n):
        acc = Sym(QZERO, None, True)
        for t in range(m):
            tw = w(k * t)
            if sign > 0:
                tw = tw.conjugate()
            acc = acc + as_sym(x[t]) * tw
        out[k] = acc
    return out


def _fft_generic(x, n=None, axis=-1, sign=-1, scale=None, half=False):
    x = to_symarray(x)
    if x.ndim == 1:
        N = n if n is not None else x.shape[0]
        r = dft_vec(x, N, sign)
        if scale:
            r = r / N
        if half:
            r = r[:N // 2 + 1].copy()
        return r
    if x.ndim == 2:
        if axis in (-1, 1):
            rows = [_fft_generic(x[i], n, -1, sign, scale, half) for i in range(x.shape[0])]
            out = SymArray((len(rows), len(rows[0])))
            for i, rr in enumerate(rows):
                out[i, :] = rr
            return out
        cols = [_fft_generic(x[:, j], n, -1, sign, scale, half) for j in range(x.shape[1])]
        out = SymArray((len(cols[0]), len(cols)))
        for j, cc in enumerate(cols):
            out[:, j] = cc
        return out
    raise SymError("fft of a %d-D symbolic array" % x.ndim)


@implements(np.fft.fft)
def fft(x, n=None, axis=-1, norm=None, **kw):
    used("numpy.fft.fft=DFT definition, exact twiddles")
    return _fft_generic(x, n, axis, -1)


@implements(np.fft.ifft)
def ifft(x, n=None, axis=-1, norm=None, **kw):
    used("numpy.fft.ifft=inverse DFT definition, exact twiddles")
    return _fft_generic(x, n, axis, +1, scale=True)


@implements(np.fft.rfft)
def rfft(x, n=None, axis=-1, norm=None, **kw):
    used("numpy.fft.rfft=first n//2+1 bins of the DFT definition")
    return _fft_generic(x, n, axis, -1, half=True)


# ---------------------------------------------------------------------------
def correlate_full(x, y, mode='full', **kw):
    """scipy.signal.correlate(x, y, 'full'): c[k] = sum_n x[n+k] conj(y[n]), k = -(Ny-1)..Nx-1"""
    used("scipy.signal.correlate=lag sums with conjugate on the second argument")
    if mode != 'full':
        raise SymError("correlate mode %s" % mode)
    x = to_symarray(x)
    y = to_symarray(y)
    nx, ny = len(x), len(y)
    cplx = is_complex_array(x) or is_complex_array(y)
    out = SymArray(nx + ny - 1)
    for idx, k in enumerate(range(-(ny - 1), nx)):
        acc = Sym(QZERO, None, cplx)
        for n in range(ny):
            if 0 <= n + k < nx:
                acc = acc + x[n + k] * y[n].conjugate()
        out[idx] = acc
    return out


def toeplitz(c, r=None):
    used("scipy.linalg.toeplitz=definition")
    c = to_symarray(np.asarray(c, dtype=object).ravel() if not isinstance(c, SymArray) else c)
    if r is None:
        r = c.conj()
    else:
        r = to_symarray(np.asarray(r, dtype=object).ravel() if not isinstance(r, SymArray) else r)
    out = SymArray((len(c), len(r)))
    for i in range(len(c)):
        for j in range(len(r)):
            out[i, j] = c[i - j] if i >= j else r[j - i]
    return out


# ---------------------------------------------------------------------------
# exact linear algebra
def _mat(a):
    a = to_symarray(a)
    return [[as_sym(a[i, j]) for j in range(a.shape[1])] for i in range(a.shape[0])]


def solve_exact(A, B, note="linear solve"):
    """Gauss-Jordan over Sym; A square (list of lists), B list of lists (columns of rhs).
    Pivots that are not identically zero are *assumed* non-zero (recorded)."""
    n = len(A)
    M = [list(A[i]) + list(B[i]) for i in range(n)]
    c = ctx()
    for col in range(n):
        piv = None
        for r in range(col, n):
            e = M[r][col]
            if not (e.re.is_zero() and e.im.is_zero()):
                piv = r
                break
        if piv is None:
            raise SymError("structurally singular system in %s" % note)
        M[col], M[piv] = M[piv], M[col]
        p = M[col][col]
        if not p.is_const():
            c.assume(p != 0, "pivot non-zero (full rank) in " + note)
        inv = 1 / p
        M[col] = [e * inv for e in M[col]]
        for r in range(n):
            if r != col:
                f = M[r][col]
                if f.re.is_zero() and f.im.is_zero():
                    continue
                M[r] = [a - f * b for a, b in zip(M[r], M[col])]
    return [row[n:] for row in M]


@implements(np.linalg.solve)
def solve(a, b):
    used("numpy.linalg.solve=exact elimination, pivots assumed non-zero")
    A = _mat(a)
    b = to_symarray(b)
    if b.ndim == 1:
        X = solve_exact(A, [[as_sym(b[i])] for i in range(len(A))])
        out = SymArray(len(A))
        for i in range(len(A)):
            out[i] = X[i][0]
        return out
    X = solve_exact(A, _mat(b))
    out = SymArray((len(A), b.shape[1]))
    for i in range(len(A)):
        for j in range(b.shape[1]):
            out[i, j] = X[i][j]
    return out


@implements(np.linalg.inv)
def inv(a):
    used("numpy.linalg.inv=exact elimination, pivots assumed non-zero")
    A = _mat(a)
    n = len(A)
    I = [[Sym(QONE if i == j else QZERO) for j in range(n)] for i in range(n)]
    X = solve_exact(A, I)
    out = SymArray((n, n))
    for i in range(n):
        for j in range(n):
            out[i, j] = X[i][j]
    return out


def lstsq(a, b, *args, **kw):
    """least squares through the normal equations A^H A x = A^H b, full column rank assumed"""
    used("lstsq=normal equations solved exactly, full column rank assumed")
    A = _mat(a)
    b = to_symarray(b)
    m, n = len(A), len(A[0])
    vec = b.ndim == 1
    Bm = [[as_sym(b[i])] for i in range(m)] if vec else _mat(b)
    k = len(Bm[0])
    AhA = [[sum((A[r][i].conjugate() * A[r][j] for r in range(m)), Sym(QZERO)) for j in range(n)] for i in range(n)]
    AhB = [[sum((A[r][i].conjugate() * Bm[r][j] for r in range(m)), Sym(QZERO)) for j in range(k)] for i in range(n)]
    X = solve_exact(AhA, AhB, "lstsq normal equations")
    if vec:
        x = SymArray(n)
        for i in range(n):
            x[i] = X[i][0]
    else:
        x = SymArray((n, k))
        for i in range(n):
            for j in range(k):
                x[i, j] = X[i][j]
    # residual sum of squares, as LAPACK reports it (for m > n)
    res = SymArray(k if not vec else 1)
    for j in range(k):
        acc = Sym(QZERO)
        for r in range(m):
            e = Bm[r][j] - sum((A[r][i] * X[i][j] for i in range(n)), Sym(QZERO))
            acc = acc + e.abs2()
        res[j] = acc
    return x, res, n, None


implements(np.linalg.lstsq)(lstsq)


def cholesky_lower(a, **kw):
    """contract stub: fresh lower-triangular L, positive diagonal, L L^H = A"""
    used("cholesky=fresh triangular factor with positive diagonal and L L^H = A")
    A = _mat(a)
    n = len(A)
    c = ctx()
    cplx = is_complex_array(to_symarray(a))
    L = [[Sym(QZERO, None, cplx) for _ in range(n)] for _ in range(n)]
    for i in range(n):
        for j in range(i + 1):
            nm = c.fresh_name("chol_%d_%d" % (i, j))
            if i == j or not cplx:
                v = Sym(Q.var(nm, kind='chol'), None, cplx)
            else:
                v = Sym(Q.var(nm + "_re", kind='chol'), Q.var(nm + "_im", kind='chol'), True)
            if i == j:
                c.axioms.append(SymBool.cmp('<', -v.re))
            L[i][j] = v
    for i in range(n):
        for j in range(n):
            acc = Sym(QZERO)
            for k in range(min(i, j) + 1):
                acc = acc + L[i][k] * L[j][k].conjugate()
            c.axioms.append(acc == A[i][j])
    out = SymArray((n, n))
    for i in range(n):
        for j in range(n):
            out[i, j] = L[i][j]
    return out


implements(np.linalg.cholesky)(cholesky_lower)


def scipy_cholesky(a, lower=False, **kw):
    L = cholesky_lower(a)
    if lower:
        return L
    return L.conj().T


def scipy_cho_solve(c_and_lower, b, **kw):
    used("scipy.linalg.cho_solve=two exact triangular solves")
    (c, lower) = c_and_lower
    L = c if lower else c.conj().T
    y = solve(L, b)
    return solve(L.conj().T, y)


def svd_stub(a, full_matrices=True, compute_uv=True, **kw):
    """contract stub: arbitrary S (real, >= 0, non-increasing) and arbitrary complex Vh; U not modelled"""
    used("numpy.linalg.svd=arbitrary ordered non-negative S and arbitrary Vh (no relation to the input assumed)")
    a = to_symarray(a)
    m, n = a.shape
    c = ctx()
    k = min(m, n)
    hook = getattr(c, 'svd_hook', None)
    if hook is not None:
        res = hook(a)
        if res is not None:
            used("numpy.linalg.svd=relational contract supplied by the check (see assumptions)")
            c.svd_last = (a, res[0], res[1])
            return None, res[0].copy(), res[1].copy()
    # the stub is a function of its input: the same matrix gets the same (S, Vh)
    memo = getattr(c, '_svd_memo', None)
    if memo is None:
        memo = c._svd_memo = {}
    mkey = (m, n) + tuple((_qkey(as_sym(e).re), _qkey(as_sym(e).im)) for e in a.flat)
    if mkey in memo:
        S0, V0 = memo[mkey]
        return None, S0.copy(), V0.copy()
    S = SymArray(k)
    for i in range(k):
        S[i] = Sym(Q.var(c.fresh_name("svd_S%d" % i), kind='svd'))
        c.axioms.append(SymBool.cmp('<=', -S[i].re))
        if i:
            c.axioms.append(SymBool.cmp('<=', S[i].re - S[i - 1].re))
    Vh = SymArray((n, n))
    cplx = is_complex_array(a)      # LAPACK returns real factors for a real matrix
    for i in range(n):
        for j in range(n):
            nm = c.fresh_name("svd_V%d_%d" % (i, j))
            if cplx:
                Vh[i, j] = Sym(Q.var(nm + "_re", kind='svd'), Q.var(nm + "_im", kind='svd'), True)
            else:
                Vh[i, j] = Sym(Q.var(nm, kind='svd'))
    c.svd_last = (a, S, Vh)
    memo[mkey] = (S, Vh)
    return None, S.copy(), Vh.copy()


def _qkey(q):
    return q.key()


implements(np.linalg.svd)(svd_stub)


@implements(np.convolve)
def convolve(a, v, mode='full'):
    a = to_symarray(np.atleast_1d(a))
    v = to_symarray(np.atleast_1d(v))
    if mode != 'full':
        raise SymError("convolve mode")
    out = SymArray(len(a) + len(v) - 1)
    for k in range(len(out)):
        acc = Sym(QZERO)
        for i in range(len(a)):
            j = k - i
            if 0 <= j < len(v):
                acc = acc + a[i] * v[j]
        out[k] = acc
    return out
